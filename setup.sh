#!/bin/sh
# offline setup: jsonschema + icontract from the local wheelhouse into /verif/.deps
HERE="$(cd "$(dirname "$0")" && pwd)"
export PYTHONPATH="${VERIF_REPO:-/repo}:$HERE" PYTHONDONTWRITEBYTECODE=1
exec "${VERIF_PYTHON:-/venv/bin/python}" -c "from vfw import runner; runner.ensure_deps(); print('deps ok')"
