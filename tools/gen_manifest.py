#!/usr/bin/env python3
"""Regenerates /verif/MANIFEST.json from the check modules that exist."""
import json
import os

ROOT = os.path.dirname(os.path.dirname(os.path.abspath(__file__)))

META = {
    "C01": dict(cat="exploration", ref="DESIGN.md §4 C01",
                technique="runtime monitoring: round-trip oracle (deep equality + exact classes) over generated schemas/values, swallowed-exception and generated-line monitors",
                text="decode(encode(v)) == v with identical concrete classes on every generated (family, type, Config, value) case via codec, one-shot function and dataclass field (mixin and plain); held on the executions observed, not a proof",
                note="finite edge-value pools, depth <= 4, exclusions as stated by the property; oracle is Python == plus exact class walk"),
    "C02": dict(cat="exploration", ref="DESIGN.md §4 C02",
                technique="runtime monitoring: independent reference interpreter of the type hints (REF_ENCODE) compared with every observed encode result; basic-types-only and json.dumps monitors; identity encoder= to observe format dialect trees",
                text="encode_S(v) == REF_ENCODE(S, v) incl. order, only basic types, json.dumps succeeds, format dialects differ only by their declared natives",
                note="the reference encodes my reading of the README tables; lenient points listed in DESIGN §3"),
    "C03": dict(cat="exploration", ref="DESIGN.md §4 C03",
                technique="runtime monitoring: reference decoder (REF_DECODE) + exact-class CONFORMS walk over results of hostile JSON-like inputs",
                text="whenever decode returns r: r == REF_DECODE(S,d) and CONFORMS(S,r); whenever the reference is defined the library returns",
                note="hostile inputs = single-position mutations of valid dumps + junk pool; reference shares only stdlib constructors with the implementation"),
    "C04": dict(cat="exploration", ref="DESIGN.md §4 C04",
                technique="runtime monitoring: per-format round trip + differential against the format library's own dump of the reference tree; mixin/codec/function agreement",
                text="decode_F(encode_F(v)) == v and parse_F(doc) == parse_F(dump_F(REF_ENCODE_F(v))) for json, orjson, yaml, msgpack, toml inside each format's representable subset",
                note="representable subset decided by the format library itself (discarded cases counted)"),
    "C05": dict(cat="fault_enumeration", ref="DESIGN.md §4 C05",
                technique="runtime fault injection: every single-field corruption (field x junk pool) of valid inputs + non-mapping arguments; outcome oracle from the reference decoder; sys.monitoring RAISE monitor for swallowed NameErrors; input snapshots",
                text="outcome is an instance or one of the documented exceptions naming the first bad field, carrying the injected object; no silent None/default; input unchanged",
                note="junk pool finite (30 values); reference decides validity"),
    "C06": dict(cat="exploration", ref="DESIGN.md §4 C06",
                technique="runtime monitoring: jsonschema Draft 2020-12 validator as oracle over serializer output for 4 (dialect, all_refs) variants; required/$defs structural monitors",
                text="every serialized document validates against build_json_schema(T) for DRAFT_2020_12/OPEN_API_3_1 x all_refs; required == fields without defaults; distinct classes never share a definition",
                note="format assertions off; OpenAPI refs rewritten onto the document's own definitions"),
    "C07": dict(cat="exploration", ref="DESIGN.md §4 C07",
                technique="runtime monitoring: exhaustive key-subset enumeration per generated field layout, model of defaults/factories, identity monitor on factory results, poisoned non-init keys",
                text="field == converted input iff key present else default / fresh factory result; non-init members never read; MissingField names the first missing field",
                note="layouts <= 8 fields, all 2^n key subsets enumerated per layout (exhaustive per layout, random layouts)"),
    "C08": dict(cat="exploration", ref="DESIGN.md §4 C08",
                technique="runtime monitoring: PROJECT model over the option lattice, enumerated exhaustively per generated schema",
                text="to_dict_o(x) == PROJECT(o, plain(x)) incl. key order for every point of the option lattice",
                note="schemas random; lattice exhaustive per schema"),
    "C09": dict(cat="exploration", ref="DESIGN.md §4 C09",
                technique="runtime monitoring: KEYMODEL over alias sources x options x all key subsets",
                text="result/exception == KEYMODEL(config, present keys)",
                note="2-3 fields, candidate key set <= 2^9 subsets, exhaustive per configuration"),
    "C10": dict(cat="exploration", ref="DESIGN.md §4 C10",
                technique="runtime monitoring: tagged strategies at every customization level, marker oracle = lexicographic minimum of enabled levels",
                text="marker in output identifies the most specific enabled level for every enabled subset, both directions, mixin and codec",
                note="subsets sampled on quick, exhaustive on thorough"),
    "C11": dict(cat="exploration", ref="DESIGN.md §4 C11",
                technique="runtime monitoring: REF_UNION_DECODE model vs observed outcomes over random unions x scalar/container/junk inputs; encode member oracle",
                text="decode_U(d) == REF_UNION_DECODE(U,d) incl. raise; encode_U(v) == encode_member(v); Literal accepts exactly listed values",
                note="two-pass model calibrated against tests/test_union.py"),
    "C12": dict(cat="exploration", ref="DESIGN.md §4 C12",
                technique="runtime monitoring of histories: offline checker of define/deserialize event logs against a sequential tag->class model",
                text="every deserialize event returns the class tagged t among classes defined so far, or the documented error, for 4 wirings",
                note="bounded histories (<= 12 quick / 30 thorough), unique tags"),
    "C13": dict(cat="exploration", ref="DESIGN.md §4 C13",
                technique="runtime monitoring of call histories: each call compared with a freshly built twin family whose default dialect is D; codec documents compared across 6 formats; icontract post-condition on Dialect.merge",
                text="dialect calls are isolated per call and every codec honours default_dialect uniformly",
                note="bounded histories; dialect pool finite"),
    "C14": dict(cat="exploration", ref="DESIGN.md §4 C14",
                technique="runtime monitoring of histories and schedules: eager/lazy/postponed twins, op permutations, 8-thread barrier starts with sys.monitoring yield injection and schedule fingerprints",
                text="every op outcome equals the outcome on a fresh eager twin; no RecursionError on first calls",
                note="only interleavings actually produced are observed; wall-clock never decides"),
    "C15": dict(cat="exploration", ref="DESIGN.md §4 C15",
                technique="runtime monitoring: pairwise differential of all entry points, re-checked after creating further codecs/subclasses",
                text="mixin, codec, one-shot function and nested use agree on encode and decode (incl. exception class)",
                note="random dataclasses with hooks/unions/aliases"),
    "C16": dict(cat="exploration", ref="DESIGN.md §4 C16",
                technique="runtime monitoring: adversarial string alphabet at 8 schema positions, sentinel side-effect counter and audit-hook monitor (exec/os.system/subprocess/open)",
                text="class builds, key/value used is exactly s, sentinel never fires",
                note="alphabet finite; audit hook sees only audited events"),
    "C17": dict(cat="exploration", ref="DESIGN.md §4 C17",
                technique="runtime monitoring + live-bytecode inspection: RAISE monitor for NameError/UnboundLocalError in generated frames, dis-based closure walk over every live generated function, identity check of schema classes",
                text="no NameError in generated code, every global name resolves, schema classes bound by identity",
                note="closure walk covers name resolution of unexecuted paths, not their semantics"),
    "C18": dict(cat="exploration", ref="DESIGN.md §4 C18",
                technique="runtime monitoring: identity-graph intersection of argument and result vs SHARE model; deep snapshots before/after",
                text="shared containers == model-predicted set under every no_copy set; nothing mutated",
                note="Any positions excluded"),
    "C19": dict(cat="exploration", ref="DESIGN.md §4 C19",
                technique="runtime monitoring: hook event trace checked against pre/post-order traversal model, context identity",
                text="each hook exactly once per instance, in order, through every entry point and format",
                note="hook-instrumented generated families"),
    "C20": dict(cat="exploration", ref="DESIGN.md §4 C20",
                technique="runtime monitoring: build_json_schema over grammar x Config space x build sequences; metaschema validator, ref-closure and round-trip monitors",
                text="no exception, metaschema-valid, refs closed, definitions consistent across builds, JSONSchema round trip identity",
                note="recursion limit lowered in workers so unbounded recursion is cheap to observe"),
}


def main():
    checks = []
    na = []
    for cid in sorted(META):
        m = META[cid]
        mod = os.path.join(ROOT, "vfw", "checks", cid.lower() + ".py")
        if not os.path.exists(mod):
            na.append({"property_id": cid, "reason": "check under construction in this round (no machinery committed yet); not a claim of inapplicability"})
            continue
        checks.append({
            "property_id": cid,
            "quick_cmd": f"./check {cid} --tier quick",
            "thorough_cmd": f"./check {cid} --tier thorough",
            "evidence_file": f"/verif/evidence/{cid}.json",
            "replay_cmd_template": f"./check {cid} --replay {{path}}",
            "engine": "vfw",
            "level_claimed": {"category": m["cat"], "text": m["text"], "design_ref": m["ref"]},
            "level_note": m["note"],
            "technique": m["technique"],
        })
    manifest = {
        "version": 1,
        "setup_cmd": "./setup.sh",
        "hooks": {
            "guard": "FATAL1TY_MASHUMARO_VERIF",
            "enable": "no source hooks are needed: monitors use sys.addaudithook, sys.monitoring, gc and the public API; the guard variable is exported by ./check but nothing in /repo reads it",
            "baseline_off_cmd": "cd /repo && /venv/bin/python -m pytest -ra -q -p no:cacheprovider --timeout=900 --continue-on-collection-errors",
            "source_commits": [],
            "add_only": True,
        },
        "engines": [{
            "name": "vfw", "path": "/verif/vfw",
            "serves_properties": [c["property_id"] for c in checks],
            "kind_free_text": "runtime monitoring: generated class families (source text executed in registered modules), reference interpreter oracle, audit-hook / sys.monitoring monitors, sharded subprocess runner",
        }],
        "checks": checks,
        "notes": "exit 0 held / 1 violated / 2 inconclusive (deciding monitor observed too little, or watchdog). known_findings.json lists genuine defects recorded or repaired.",
        "not_applicable": na,
    }
    with open(os.path.join(ROOT, "MANIFEST.json"), "w") as f:
        json.dump(manifest, f, indent=1)
    print(f"{len(checks)} checks, {len(na)} pending")


if __name__ == "__main__":
    main()
