#!/usr/bin/env python3
"""tools/gen_prompts.py <round> <prop> [...]: writes /tmp/out<round>_<prop>/prompt.txt for the seeding sub-agents from the
round-4 template (only the property text and, as "do not repeat", the earlier rounds' own notes) and creates the worktree."""
import json, os, re, subprocess, sys
ROOT = os.path.dirname(os.path.dirname(os.path.abspath(__file__)))
rnd = sys.argv[1]
tmpl = open("/tmp/out4_C01/prompt.txt").read()
head, rest = tmpl.split("\n---\n", 1)
_, rest = rest.split("\n---\n", 1)
body, _ = rest.split("Ideas already used (earlier rounds' own notes):\n------\n", 1)
props = {}
for l in open(os.path.join(ROOT, "properties.jsonl")):
    p = json.loads(l)
    props[p["id"]] = p
ORD = {"4": "FOURTH", "5": "FIFTH", "6": "SIXTH"}[rnd]
for pid in sys.argv[2:]:
    p = props[pid]
    text = "\n".join(f"{k}: {p[k]}" for k in p if k != "id")
    notes = []
    sd = os.path.join(ROOT, "seeded")
    for sid in sorted(os.listdir(sd)) + sorted(os.listdir(os.path.join(sd, "_not_property_breaking"))):
        for base in (sd, os.path.join(sd, "_not_property_breaking")):
            mp = os.path.join(base, sid, "meta.json")
            if sid.startswith(pid + "-") and os.path.exists(mp):
                n = json.load(open(mp)).get("agent_notes", "")
                if n and n not in notes:
                    notes.append(n)
    out = f"/tmp/out{rnd}_{pid}"
    wt = f"/tmp/wt{rnd}_{pid}"
    os.makedirs(out, exist_ok=True)
    s = head + "\n---\n" + text + "\n---\n" + body + "Ideas already used (earlier rounds' own notes):\n------\n" + "\n------\n".join(notes) + "\n------\n"
    s = s.replace("/tmp/wt4_C01", wt).replace("/tmp/out4_C01", out).replace("FOURTH", ORD)
    open(os.path.join(out, "prompt.txt"), "w").write(s)
    if not os.path.exists(wt):
        subprocess.run(["git", "-C", "/repo", "worktree", "add", "-q", "--detach", wt, "HEAD"], check=True)
    print(pid, len(s), "chars;", len(notes), "earlier note files")
