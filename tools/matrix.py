#!/usr/bin/env python3
"""Runs every seeded change against its target check (and known related checks) on a scratch copy of /repo and
records the outcome in seeded/<id>/meta.json (detected_by) and seeded/MATRIX.md."""
import json, os, subprocess, sys, tempfile, shutil
ROOT = os.path.dirname(os.path.dirname(os.path.abspath(__file__)))
EXTRA = {"C01-1": ["C02", "C08"], "C01-2": ["C03"], "C02-1": ["C04"], "C02-2": ["C10", "C13"], "C03-1": ["C01"], "C03-2": ["C01"],
         "C05-2": ["C07"], "C07-2": ["C05"], "C09-1": ["C07"], "C10-2": ["C13"], "C14-1": ["C15", "C17"], "C15-1": ["C17"], "C18-1": ["C13"],
         "C01-4": ["C07", "C15"], "C03-4": ["C01", "C05", "C07"], "C07-4": ["C03", "C05"], "C04-4": ["C15"], "C15-5": ["C04"], "C08-5": ["C07"],
         "C16-10": ["C09"], "C16-11": ["C08"], "C15-10": ["C04", "C13", "C10"], "C04-10": ["C02", "C13", "C10"], "C04-11": ["C13", "C10"], "C20-11": ["C06"],
         "C20-10": ["C06"], "C07-11": ["C03", "C01"], "C09-9": ["C19"], "C09-11": ["C05"], "C01-10": ["C14"], "C02-10": ["C04", "C13", "C15"], "C03-9": ["C13"], "C03-11": ["C04"], "C05-9": ["C03"], "C18-10": ["C10", "C07"],
         "C14-4": ["C10", "C13"], "C10-5": ["C13", "C14"], "C13-5": ["C10", "C14"], "C18-4": ["C13"], "C17-5": ["C15"], "C02-5": ["C04", "C14"], "C04-5": ["C14"],
         # round 5
         "C07-14": ["C19"], "C02-13": ["C10", "C07"], "C02-14": ["C04", "C13"], "C13-14": ["C10", "C02"], "C15-13": ["C12"], "C03-12": ["C10"], "C03-13": ["C07", "C11"],
         "C09-13": ["C07"], "C11-12": ["C13"], "C04-13": ["C14"], "C14-13": ["C13"], "C08-14": ["C02", "C13"], "C16-12": ["C07", "C09"], "C16-13": ["C10"]}
only = sys.argv[1:]
rows = []
for sid in sorted(os.listdir(os.path.join(ROOT, "seeded"))):
    d = os.path.join(ROOT, "seeded", sid)
    if not os.path.isdir(d) or sid.startswith("_") or (only and sid not in only):
        continue
    tmp = tempfile.mkdtemp(prefix="vmut.")
    try:
        subprocess.run(["rsync", "-a", "--exclude", ".git", "--exclude", "__pycache__", "/repo/", tmp + "/"], check=True)
        r = subprocess.run(["patch", "-p1", "-s", "-i", os.path.join(d, "patch.diff")], cwd=tmp)
        if r.returncode != 0:
            rows.append((sid, "PATCH-FAILED", {}))
            continue
        meta = json.load(open(os.path.join(d, "meta.json")))
        res = {}
        for chk in [sid.split("-")[0]] + EXTRA.get(sid, []):
            env = dict(os.environ, VERIF_REPO=tmp, VERIF_OUT=os.path.join(tmp, ".verif_out"))
            out = subprocess.run([os.path.join(ROOT, "check"), chk, "--tier", "quick"], env=env, capture_output=True, text=True).stdout
            last = [l for l in out.splitlines() if l.startswith("[")][-1:] or ["?"]
            verdict = "detected" if " violated:" in last[0] else ("inconclusive" if "inconclusive" in last[0] else "missed")
            res[chk] = {"verdict": verdict, "summary": last[0]}
        meta["detected_by"] = res
        json.dump(meta, open(os.path.join(d, "meta.json"), "w"), indent=1)
        rows.append((sid, "ok", res))
        print(sid, {k: v["verdict"] for k, v in res.items()}, flush=True)
    finally:
        shutil.rmtree(tmp, ignore_errors=True)
with open(os.path.join(ROOT, "seeded", "MATRIX.md"), "w") as f:
    f.write("# Seeded changes x checks (quick tier, seed 0)\n\nWritten by tools/matrix.py from seeded/*/meta.json (detected_by).\n\n"
            "| seeded change | breaks | result per check |\n|---|---|---|\n")
    for sid in sorted(os.listdir(os.path.join(ROOT, "seeded"))):
        mp = os.path.join(ROOT, "seeded", sid, "meta.json")
        if os.path.exists(mp) and not sid.startswith("_"):
            res = json.load(open(mp)).get("detected_by", {})
            f.write(f"| {sid} | {sid.split('-')[0]} | " + ", ".join(f"{k}: {v['verdict']}" for k, v in res.items()) + " |\n")
