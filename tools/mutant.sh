#!/bin/sh
# usage: tools/mutant.sh <patch.diff> <CHECK> [tier] [seed]  -- apply the patch to a scratch copy of /repo,
# run the check against it (VERIF_REPO), expect exit 1; scratch copy is removed afterwards.
set -e
PATCH="$(realpath "$1")"; CHECK="$2"; TIER="${3:-quick}"; SEED="${4:-0}"
HERE="$(cd "$(dirname "$0")/.." && pwd)"
D="$(mktemp -d /tmp/vmut.XXXXXX)"
trap 'rm -rf "$D"' EXIT
rsync -a --exclude .git --exclude '*.pyc' --exclude __pycache__ /repo/ "$D/"
(cd "$D" && patch -p1 -s < "$PATCH")
set +e
VERIF_OUT="$D/.verif_out" VERIF_REPO="$D" "$HERE/check" "$CHECK" --tier "$TIER" --seed "$SEED" | grep -v '^KNOWN-FINDING' | tail -4
RC=$?
