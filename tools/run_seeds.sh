#!/bin/sh
# usage: tools/run_seeds.sh "<seed ids>" "<checks>" [tier]   -- which checks detect which seeded change
HERE="$(cd "$(dirname "$0")/.." && pwd)"
TIER="${3:-quick}"
for S in $1; do
  D="$(mktemp -d /tmp/vmut.XXXXXX)"
  rsync -a --exclude .git --exclude '*.pyc' --exclude __pycache__ /repo/ "$D/"
  (cd "$D" && patch -p1 -s < "$HERE/seeded/$S/patch.diff") || { echo "$S: patch failed"; rm -rf "$D"; continue; }
  for C in $2; do
    OUT="$(VERIF_OUT="$D/.verif_out" VERIF_REPO="$D" "$HERE/check" "$C" --tier "$TIER" 2>&1 | grep -v '^KNOWN-FINDING' | tail -1)"
    echo "$S x $C: $OUT"
  done
  rm -rf "$D"
done
