import json,sys
for f in sys.argv[1:]:
    d=json.load(open(f))
    print('==',f, d['sig'])
    for k,v in d['detail'].items():
        print('  ',k, ':', str(v if k!='family' else v.get('source'))[:1500])
    print('   facts:', d.get('facts'))
