import json,sys,glob,subprocess
cid=sys.argv[1]
ev=json.load(open(f'/verif/evidence/{cid}.json'))
c=ev['coverage']
for k,v in sorted(c['violation_signatures'].items(), key=lambda x:-x[1]): print(v,k)
print({k:v for k,v in c['counters'].items() if not k.startswith('generated') and not k.startswith('raised')})
if c.get('harness_errors'): print('HARNESS', c['harness_errors'][0]['error'], c['harness_errors'][0]['tb'][-600:])
print(c.get('inconclusive_reasons'))
