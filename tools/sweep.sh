#!/bin/sh
# usage: tools/sweep.sh <tier> <seed> [<seed> ...]  -- run every check for each seed; print only non-held results
TIER="$1"; shift
HERE="$(cd "$(dirname "$0")/.." && pwd)"
for S in "$@"; do
  for i in 01 02 03 04 05 06 07 08 09 10 11 12 13 14 15 16 17 18 19 20; do
    OUT="$(VERIF_OUT="${SWEEP_OUT:-$HERE/.sweep_out}" "$HERE/check" C$i --tier "$TIER" --seed "$S" 2>&1 | grep -v '^KNOWN-FINDING' )"
    LAST="$(echo "$OUT" | tail -1)"
    case "$LAST" in
      *" held:"*) echo "seed=$S $LAST" ;;
      *) echo "seed=$S NOT-HELD C$i"; echo "$OUT" | tail -6 ;;
    esac
  done
done
