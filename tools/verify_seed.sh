#!/bin/sh
# usage: tools/verify_seed.sh <out_dir> <k> <seed_id> <property>
# confirms in a scratch worktree of /repo HEAD: patch applies, demo fails with it, the unedited suite passes with it,
# demo passes without it; then stores it under /verif/seeded/<seed_id>/
OUT="$1"; K="$2"; SID="$3"; PROP="$4"
HERE="$(cd "$(dirname "$0")/.." && pwd)"
WT="/tmp/vs_$SID"
# demos written by the agents may assert their own worktree path: neutralise that line only
DEMO="/tmp/vs_demo_$SID.py"
sed -E 's#^(\s*)assert .*__file__.*startswith.*$#\1pass#' "$OUT/demo$K.py" > "$DEMO"
git -C /repo worktree add -q --detach "$WT" HEAD || exit 3
cleanup() { git -C /repo worktree remove --force "$WT"; }
trap cleanup EXIT
cd "$WT"
if ! git apply "$OUT/patch$K.diff"; then echo "RESULT $SID patch-does-not-apply"; exit 2; fi
PYTHONPATH="$WT:$OUT" /venv/bin/python "$DEMO" >/tmp/vs_demo_with.$SID 2>&1; DW=$?
PYTHONPATH="$WT" timeout 1800 /venv/bin/python -m pytest -q -p no:cacheprovider -n ${VS_JOBS:-16} -x tests >/tmp/vs_suite.$SID 2>&1; SU=$?
SUMMARY="$(tail -1 /tmp/vs_suite.$SID)"
git checkout -q -- .
PYTHONPATH="$WT:$OUT" /venv/bin/python "$DEMO" >/tmp/vs_demo_without.$SID 2>&1; DO=$?
echo "RESULT $SID demo_with_patch_rc=$DW suite_rc=$SU ($SUMMARY) demo_without_rc=$DO"
if [ $DW -ne 0 ] && [ $SU -eq 0 ] && [ $DO -eq 0 ]; then
  mkdir -p "$HERE/seeded/$SID"
  cp "$OUT/patch$K.diff" "$HERE/seeded/$SID/patch.diff"
  cp "$DEMO" "$HERE/seeded/$SID/demo.py"
  /venv/bin/python - "$HERE/seeded/$SID/meta.json" "$SID" "$PROP" "$OUT" "$K" "$SUMMARY" <<'PY'
import json,sys,re
path,sid,prop,out,k,summary=sys.argv[1:7]
notes=open(f"{out}/notes.md").read()
json.dump({"id":sid,"breaks_property":prop,"source":"independent sub-agent given only the property text and a scratch worktree",
  "needs_to_manifest":"see notes (agent's own words)","agent_notes":notes,
  "confirmed":{"patch_applies_to":"/repo HEAD scratch worktree","demo_fails_with_patch":True,"demo_passes_without_patch":True,
               "repository_suite_with_patch":summary,"command":"tools/verify_seed.sh"},
  "detected_by":{}}, open(path,"w"), indent=1)
PY
  echo "KEPT $SID"
else
  echo "REJECTED $SID"; tail -5 /tmp/vs_demo_with.$SID; tail -3 /tmp/vs_suite.$SID
fi
rm -f "$DEMO" /tmp/vs_demo_with.$SID /tmp/vs_suite.$SID /tmp/vs_demo_without.$SID
