"""Runtime-monitoring verification framework for mashumaro (see /verif/DESIGN.md)."""
