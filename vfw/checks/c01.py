"""C01 - basic-form round trip is the identity (decode(encode(v)) == v, same classes)."""
from __future__ import annotations

import random

from .. import tast
from ..family import Family
from ..gen import TypeGen
from ..ref import Ref, deep_eq
from ..values import Gen
from . import common

LEVEL = "exploration"
RULE = ("case = random class family + random type AST (depth<=2 quick / <=4 thorough) used as codec shape "
        "and as field of a generated dataclass (mixin and plain) under a random Config without key-dropping "
        "options, x 8 (quick) / 24 (thorough) conforming values from edge pools; oracle: deep_eq(decode(encode(v)), v) "
        "(== plus identical concrete class at every node). distinct_nontrivial = distinct (type shape, value "
        "fingerprint) pairs whose value is a non-empty structure or non-default scalar.")
ASSUMPTIONS = [
    "values are drawn from finite edge pools; NaN, regex flags, named/sub-minute timezones and unions whose "
    "members share a wire form are excluded as the property states",
    "PYTHONHASHSEED=0 in workers (replayable set iteration order)",
]
BUDGET_S = {"quick": 120, "thorough": 900}
MIN_EVENTS = {"quick": {"evaluations": 8000, "roundtrips_ok": 8000}, "thorough": {"evaluations": 200000, "roundtrips_ok": 200000}}


def n_cases(tier):
    return 4800 if tier == "quick" else 160000


def worker_setup(tier, rec):
    return common.install_monitors(rec)


def worker_finish(tier, rec, st):
    common.finish_monitors(rec, st)


def config_fn(rng):
    cfg = common.safe_config(rng)
    x = rng.random()
    if x < 0.25:
        cfg["serialize_by_alias"] = "True"
        cfg["_aliases"] = True
    elif x < 0.4:
        cfg["allow_deserialization_not_by_alias"] = "True"
        cfg["_aliases"] = True
    return cfg


def run_case(seed, tier, rec, st):
    from mashumaro.codecs.basic import BasicDecoder, BasicEncoder
    import mashumaro.codecs.basic as basic
    rng = random.Random(seed)
    if rng.random() < 0.03:
        common.two_module_generic_case(rng, rec, "cg")
        return
    fam = Family("c01", future_annotations=rng.random() < 0.2)
    try:
        tg = TypeGen(fam, rng, dc_config_fn=config_fn)
        maxd = 2 if tier == "quick" else rng.choice([1, 2, 3, 3, 4])
        t = tg.type(rng.randint(0, maxd))
        if tg.allow_field_engine and tg.allow_named and rng.random() < 0.03:
            t = tg.nt_engine_dataclass()          # NamedTuple engine lattice (Config option x field option x position)
        ref = Ref(fam)
        nvals = 8 if tier == "quick" else 24
        # (a) codec shape
        try:
            enc, dec = BasicEncoder(fam.module.__dict__["_T"] if False else eval_type(fam, t)), None
            dec = BasicDecoder(eval_type(fam, t))
        except Exception as e:
            rec.violation(f"codec-build:{type(e).__name__}", {"type": tast.render(t), "error": str(e)[:300], "family": fam.to_json()},
                          {"stage": "build", "exc": type(e).__name__, "msg": str(e)[:200], "type_kinds": sorted({n[0] for n in common.deep_nodes(fam, t)})})
            return
        # (b) wrapper dataclass with the type as a field
        wname = tg.fresh("W")
        wcfg = config_fn(rng)
        wcfg.pop("_aliases", None)
        mixin = rng.random() < 0.7
        wfield = {"n": "x", "t": t}
        if wcfg.get("serialize_by_alias") == "True" or wcfg.get("allow_deserialization_not_by_alias") == "True":
            wfield["alias"] = "AX"          # the wrapper's own member is renamed on the wire (whatever value it holds, None included)
        fam.add({"k": "dc", "name": wname, "bases": [], "mixin": "DataClassDictMixin" if mixin else None,
                 "fields": [wfield], "config": wcfg}, tg.value_maker)
        W = fam.get(wname)
        if not mixin:
            wenc, wdec = BasicEncoder(W), BasicDecoder(W)
        vg = Gen(fam, rng)
        for j in range(nvals):
            v = vg.value(t, 3)
            rec.evaluation()
            routes = [("codec", enc.encode, dec.decode)]
            if j % 4 == 0:
                tt = eval_type(fam, t)
                routes.append(("func", lambda x: basic.encode(x, tt), lambda d: basic.decode(d, tt)))
            if mixin:
                routes.append(("mixin-field", lambda x: W(x).to_dict(), lambda d: W.from_dict(d).x))
            else:
                routes.append(("plain-field", lambda x: wenc.encode(W(x)), lambda d: wdec.decode(d).x))
            for rname, e, d in routes:
                try:
                    doc = e(v)
                except Exception as ex:
                    rec.violation(f"{rname}:encode-exception:{type(ex).__name__}",
                                  {"type": tast.render(t), "value": common.short(v), "error": f"{type(ex).__name__}: {ex}"[:300],
                                   "family": fam.to_json()},
                                  facts_for(fam, t, v, None, ex))
                    continue
                is_basic = ref_only_basic(doc)
                try:
                    back = d(doc)
                except Exception as ex:
                    rec.violation(f"{rname}:decode-exception:{type(ex).__name__}",
                                  {"type": tast.render(t), "value": common.short(v), "doc": common.short(doc),
                                   "error": f"{type(ex).__name__}: {ex}"[:300], "family": fam.to_json()},
                                  dict(facts_for(fam, t, v, None, ex), encoded_only_basic=is_basic))
                    continue
                if deep_eq(back, v, key_order=False):
                    rec.count("roundtrips_ok")
                else:
                    rec.violation(f"{rname}:roundtrip-mismatch:{mismatch_kind(v, back)}",
                                  {"type": tast.render(t), "value": common.short(v), "doc": common.short(doc),
                                   "decoded": common.short(back), "family": fam.to_json()},
                                  dict(facts_for(fam, t, v, back, None), encoded_only_basic=is_basic, **encode_side_facts(fam, t, v, doc, rname)))
            if nontrivial(v):
                rec.nontrivial((tast.shape_hash(t), repr(v)[:200]))
            if j == 0:
                rec.sample({"type": tast.render(t), "value": common.short(v, 160), "wrapper_config": wcfg})
    finally:
        fam.dispose()


def eval_type(fam, t):
    return common.eval_type(fam, t)


def nontrivial(v):
    if v is None or v == 0 or v == "" or v is False:
        return False
    try:
        return len(v) > 0
    except TypeError:
        return True


def mismatch_kind(v, back):
    import datetime
    if type(v) is not type(back):
        return f"class:{type(v).__name__}->{type(back).__name__}"
    return f"value:{type(v).__name__}"


def _find_tz(v, acc):
    import collections, dataclasses, datetime
    if isinstance(v, datetime.timezone):
        acc.append(v)
    elif isinstance(v, (datetime.datetime, datetime.time)) and isinstance(v.tzinfo, datetime.timezone):
        acc.append(v.tzinfo)
    elif dataclasses.is_dataclass(v) and not isinstance(v, type):
        for f in dataclasses.fields(v):
            _find_tz(getattr(v, f.name, None), acc)
    elif isinstance(v, collections.ChainMap):
        for m in v.maps:
            _find_tz(m, acc)
    elif hasattr(v, "items"):
        for k, x in v.items():
            _find_tz(k, acc)
            _find_tz(x, acc)
    elif isinstance(v, (list, tuple, set, frozenset, collections.deque)):
        for x in v:
            _find_tz(x, acc)


def ref_only_basic(doc):
    from ..ref import only_basic
    return only_basic(doc)


def facts_for(fam, t, v, back, exc):
    import datetime
    tzs = []
    _find_tz(v, tzs)
    neg_subhour = [z for z in tzs if datetime.timedelta(hours=-1) < z.utcoffset(None) < datetime.timedelta(0)]
    return {
        "type_kinds": sorted({n[0] for n in common.deep_nodes(fam, t)}),
        "has_negative_subhour_timezone": bool(neg_subhour),
        "union_copy_shortcut": common.union_copy_fact(fam, t),
        "exc": type(exc).__name__ if exc else None,
        "msg": str(exc)[:200] if exc else None,
    }


def encode_side_facts(fam, t, v, doc, rname):
    """was it the ENCODER that went wrong (finding F20: the union serializer took an earlier member whose packer did not
    raise)?  Facts: the document differs from the reference encoding, and a non-basic member is declared before the
    member the value belongs to."""
    from ..ref import Ref, Ctx, match, RefError
    ref = Ref(fam)
    try:
        exp = ref.enc(t, v, Ctx())
        d = doc["x"] if rname.endswith("-field") and isinstance(doc, dict) and "x" in doc else doc
        differs = not match(d, exp)
    except Exception:
        differs = None
    try:
        earlier = common.earlier_member(ref, t, v)
    except Exception:
        earlier = None
    return {"document_differs_from_reference_encoding": differs, "earlier_nonscalar_member_before_value_member": earlier}
