"""C01 - basic-form round trip is the identity (decode(encode(v)) == v, same classes)."""
from __future__ import annotations

import random

from .. import tast
from ..family import Family
from ..gen import TypeGen
from ..ref import Ref, deep_eq
from ..values import Gen
from . import common

LEVEL = "exploration"
RULE = ("case = random class family + random type AST (depth<=2 quick / <=4 thorough) used as codec shape "
        "and as field of a generated dataclass (mixin and plain) under a random Config without key-dropping "
        "options, x 8 (quick) / 24 (thorough) conforming values from edge pools; oracle: deep_eq(decode(encode(v)), v) "
        "(== plus identical concrete class at every node). distinct_nontrivial = distinct (type shape, value "
        "fingerprint) pairs whose value is a non-empty structure or non-default scalar.")
RULE += " Additions: NamedTuple engine lattice incl. nested NamedTuples; wrapper member aliased; battery of rarely used constructors (GenericSerializableType, TypeVarTuple generics, LiteralString, collections.namedtuple, ReadOnly) with hand-written wire forms."
ASSUMPTIONS = [
    "values are drawn from finite edge pools; NaN, regex flags, named/sub-minute timezones and unions whose "
    "members share a wire form are excluded as the property states",
    "PYTHONHASHSEED=0 in workers (replayable set iteration order)",
]
BUDGET_S = {"quick": 120, "thorough": 900}
MIN_EVENTS = {"quick": {"evaluations": 8000, "roundtrips_ok": 8000}, "thorough": {"evaluations": 200000, "roundtrips_ok": 200000}}


def n_cases(tier):
    return 4800 if tier == "quick" else 160000


def worker_setup(tier, rec):
    return common.install_monitors(rec)


def worker_finish(tier, rec, st):
    common.finish_monitors(rec, st)


def config_fn(rng):
    cfg = common.safe_config(rng)
    x = rng.random()
    if x < 0.25:
        cfg["serialize_by_alias"] = "True"
        cfg["_aliases"] = True
    elif x < 0.4:
        cfg["allow_deserialization_not_by_alias"] = "True"
        cfg["_aliases"] = True
    return cfg


RARE_SRC = """
from mashumaro.types import GenericSerializableType
from typing_extensions import TypeVarTuple, LiteralString
KT = TypeVar('KT')
VT = TypeVar('VT')
Ts = TypeVarTuple('Ts')
T1 = TypeVar('T1')

class DictWrapper(Dict[KT, VT], GenericSerializableType):
    __packers__ = {datetime.date: lambda x: x.isoformat(), str: str, int: int}
    __unpackers__ = {datetime.date: datetime.date.fromisoformat, str: str, int: int}
    def _serialize(self, types):
        k_type, v_type = types
        return {self.__packers__[k_type](k): self.__packers__[v_type](v) for k, v in self.items()}
    @classmethod
    def _deserialize(cls, value, types):
        k_type, v_type = types
        return cls({cls.__unpackers__[k_type](k): cls.__unpackers__[v_type](v) for k, v in value.items()})

@dataclass
class Row(Generic[Unpack[Ts]]):
    cells: Tuple[Unpack[Ts]]
    label: str = ''

@dataclass
class Lead(Generic[T1, Unpack[Ts]]):
    head: T1
    rest: Tuple[Unpack[Ts]] = ()

Point = collections.namedtuple('Point', ['x', 'y'])

@dataclass
class Box2(Generic[T1]):
    v: T1

class TDro(TypedDict):
    ident: ReadOnly[int]
    when: NotRequired[ReadOnly[datetime.date]]

@dataclass
class GNode(Generic[T1]):
    v: T1
    nxt: Optional[Self] = None
    kids: List[Self] = field(default_factory=list)

S1 = TypeVar('S1')

@dataclass
class GA(Generic[T1]):
    a: T1

@dataclass
class GB(Generic[S1]):
    b: S1

@dataclass
class GC(GA[T1], GB[S1], Generic[S1, T1]):
    # the explicit Generic[...] fixes the order of the parameters: GC[int, date] is S1=int, T1=date
    pass

@dataclass
class GD(GA[List[S1]], Generic[S1]):
    # a type variable INSIDE the argument handed to a generic base
    pass

@dataclass
class GPage(Generic[T1]):
    # refers to ANOTHER specialisation of itself
    items: List[T1]
    warnings: Optional["GPage[str]"] = None

class NTg(NamedTuple, Generic[T1]):
    x: T1
    xs: List[T1]
    o: Optional[T1] = None

class TDg(TypedDict, Generic[T1]):
    item: T1
    note: NotRequired[str]
    items: NotRequired[List[T1]]

@dataclass
class Shape(DataClassDictMixin):
    area: int = 0

@dataclass
class Circle(Shape):
    kind: str = 'circle'
    r: int = 0

@dataclass
class Sq(Shape):
    kind: str = 'sq'
    side: datetime.date = datetime.date(2000, 1, 1)

DSC = Discriminator(field='kind', include_subtypes=True)

@dataclass
class Rare@MIX@:
    w1: DictWrapper[datetime.date, str]
    w2: DictWrapper[str, datetime.date]
    row: Row[int, datetime.date, str]
    lead: Lead[datetime.date, int, uuid.UUID]
    ls: LiteralString
    pt: Point
    ro: TDro
    rows: List[Row[datetime.date]] = field(default_factory=list)
    empty: Row[()] = field(default_factory=lambda: Row(()))
    wopt: Optional[DictWrapper[int, int]] = None
    bo: Box2[Optional[datetime.date]] = field(default_factory=lambda: Box2(None))
    fo: Final[Optional[datetime.date]] = None
    fu: Final[Union[int, None, str]] = None
    tg: TDg[datetime.date] = field(default_factory=lambda: {'item': datetime.date(2000, 1, 1)})
    tgs: List[TDg[int]] = field(default_factory=list)
    ng: NTg[datetime.date] = field(default_factory=lambda: NTg(datetime.date(2000, 1, 1), []))
    gn: GNode[datetime.date] = field(default_factory=lambda: GNode(datetime.date(2000, 1, 1)))
    gc: GC[int, datetime.date] = field(default_factory=lambda: GC(a=datetime.date(2000, 1, 1), b=0))
    gd: GD[datetime.date] = field(default_factory=lambda: GD([]))
    gp: GPage[datetime.date] = field(default_factory=lambda: GPage([]))
@CFG@
@dataclass
class RareD(DataClassDictMixin):
    # (subclass instances in parent-typed members: written by their own class through the mixin methods, which is what is read back)
    shapes: Annotated[List[Shape], DSC] = field(default_factory=list)
    shmap: Annotated[Dict[str, Shape], DSC] = field(default_factory=dict)
    shopt: Annotated[Optional[Shape], DSC] = None

"""


def rare_constructors_case(rng, rec):
    """rarely used constructors of the supported grammar, with hand-written wire forms: GenericSerializableType, dataclasses generic
    in a TypeVarTuple, LiteralString, untyped collections.namedtuple, ReadOnly TypedDict members."""
    import datetime
    import uuid as _uuid
    from mashumaro.codecs.basic import BasicDecoder, BasicEncoder
    fam = Family("c01r", future_annotations=False)
    try:
        mixin = rng.random() < 0.6
        cfg = []
        if rng.random() < 0.3:
            cfg.append("lazy_compilation = True")
        if rng.random() < 0.3:
            cfg.append("sort_keys = True")
        src = RARE_SRC.replace("@MIX@", "(DataClassDictMixin)" if mixin else "").replace(
            "@CFG@", ("    class Config(BaseConfig):\n" + "".join(f"        {c}\n" for c in cfg)) if cfg else "")
        try:
            fam.exec_src(src)
        except Exception as e:
            rec.violation(f"rare-constructors:class-build:{type(e).__name__}", {"error": f"{type(e).__name__}: {e}"[:300], "source": src}, {"stage": "build", "scenario": "rare"})
            return
        m = fam.module
        D = datetime.date
        d1, d2 = D(2020, 1, rng.randint(1, 28)), D(1999, 12, 31)
        u = _uuid.UUID(int=rng.getrandbits(64))
        txt = rng.choice(["", "x", "né", "a'b"])
        v = m.Rare(w1=m.DictWrapper({d1: txt}), w2=m.DictWrapper({"k": d2}), row=m.Row((1, d1, "s"), "l"), lead=m.Lead(d2, (7, u)), ls=txt, pt=m.Point(1, "y"),
                   ro={"ident": 3, "when": d1} if rng.random() < 0.6 else {"ident": 3}, rows=[m.Row((d2,))], empty=m.Row(()),
                   wopt=m.DictWrapper({1: 2}) if rng.random() < 0.5 else None,
                   bo=m.Box2(rng.choice([None, d2])), fo=rng.choice([None, d1]), fu=rng.choice([None, 3, "s"]),
                   tg=rng.choice([{"item": d1}, {"item": d2, "note": "n"}, {"item": d1, "items": [d2]}]), tgs=[{"item": 1}, {"item": 2, "note": "n", "items": [3]}],
                   ng=m.NTg(d1, [d2, d1], rng.choice([None, d2])), gn=m.GNode(d1, m.GNode(d2, m.GNode(d1)), [m.GNode(d2)]),
                   gc=m.GC(a=d1, b=7), gd=m.GD([d2, d1]), gp=m.GPage([d1], m.GPage(["late"], m.GPage(["x"]))))
        vd = m.RareD(shapes=[m.Circle(1, r=2), m.Sq(3, side=d2)], shmap={"k": m.Sq(4, side=d1)}, shopt=m.Circle(5, r=6) if rng.random() < 0.5 else None)
        expd = {"shapes": [{"area": 1, "kind": "circle", "r": 2}, {"area": 3, "kind": "sq", "side": d2.isoformat()}],
                "shmap": {"k": {"area": 4, "kind": "sq", "side": d1.isoformat()}}, "shopt": {"area": 5, "kind": "circle", "r": 6} if vd.shopt is not None else None}
        rec.evaluation()
        try:
            docd = vd.to_dict()
            backd = m.RareD.from_dict(docd)
            if docd != expd:
                rec.violation("rare-constructors:discriminated-collections:document-differs", {"observed": common.short(docd, 500), "expected": common.short(expd, 500), "source": src}, {"scenario": "rare"})
            elif backd != vd or [type(x) for x in backd.shapes] != [m.Circle, m.Sq] or type(backd.shmap["k"]) is not m.Sq:
                rec.violation("rare-constructors:discriminated-collections:roundtrip-mismatch", {"decoded": common.short(backd, 500), "value": common.short(vd, 500), "source": src}, {"scenario": "rare"})
            else:
                rec.count("roundtrips_ok")
                rec.count("rare_discriminated_collections_ok")
        except Exception as e:
            rec.violation(f"rare-constructors:discriminated-collections:exception:{type(e).__name__}", {"error": f"{type(e).__name__}: {e}"[:300], "cause": repr(e.__context__)[:200], "source": src}, {"scenario": "rare"})
        exp = {"w1": {d1.isoformat(): txt}, "w2": {"k": d2.isoformat()}, "row": {"cells": [1, d1.isoformat(), "s"], "label": "l"},
               "lead": {"head": d2.isoformat(), "rest": [7, str(u)]}, "ls": txt, "pt": [1, "y"],
               "ro": {"ident": 3, **({"when": d1.isoformat()} if "when" in v.ro else {})}, "rows": [{"cells": [d2.isoformat()], "label": ""}],
               "empty": {"cells": [], "label": ""}, "wopt": {1: 2} if v.wopt is not None else None,
               "bo": {"v": None if v.bo.v is None else v.bo.v.isoformat()}, "fo": None if v.fo is None else v.fo.isoformat(), "fu": v.fu,
               "tg": {k: (x.isoformat() if k == "item" else [i.isoformat() for i in x] if k == "items" else x) for k, x in v.tg.items()},
               "tgs": [{"item": 1}, {"item": 2, "note": "n", "items": [3]}],
               "ng": [d1.isoformat(), [d2.isoformat(), d1.isoformat()], None if v.ng.o is None else v.ng.o.isoformat()],
               "gn": {"v": d1.isoformat(), "nxt": {"v": d2.isoformat(), "nxt": {"v": d1.isoformat(), "nxt": None, "kids": []}, "kids": []}, "kids": [{"v": d2.isoformat(), "nxt": None, "kids": []}]},
               "gc": {"b": 7, "a": d1.isoformat()}, "gd": {"a": [d2.isoformat(), d1.isoformat()]},
               "gp": {"items": [d1.isoformat()], "warnings": {"items": ["late"], "warnings": {"items": ["x"], "warnings": None}}}}
        routes = [("codec", BasicEncoder(m.Rare).encode, BasicDecoder(m.Rare).decode)]
        if mixin:
            routes.append(("mixin", lambda x: x.to_dict(), m.Rare.from_dict))
        for rname, enc, dec in routes:
            rec.evaluation()
            facts = {"scenario": "rare", "route": rname}
            try:
                doc = enc(v)
                back = dec(doc)
            except Exception as e:
                rec.violation(f"rare-constructors:{rname}:exception:{type(e).__name__}", {"error": f"{type(e).__name__}: {e}"[:300], "cause": repr(e.__context__)[:200], "source": src}, facts)
                continue
            if doc != exp or ("sort_keys = True" not in cfg and list(doc) != list(exp)):
                rec.violation(f"rare-constructors:{rname}:document-differs", {"observed": common.short(doc, 600), "expected": common.short(exp, 600), "source": src}, facts)
            elif (back != v or type(back.w1) is not m.DictWrapper or type(back.row.cells) is not tuple or type(back.row.cells[1]) is not D
                  or type(back.lead.rest[1]) is not _uuid.UUID or type(back.pt) is not m.Point or type(back.rows[0]) is not m.Row):
                rec.violation(f"rare-constructors:{rname}:roundtrip-mismatch", {"decoded": common.short(back, 600), "value": common.short(v, 600), "source": src}, facts)
            else:
                rec.count("roundtrips_ok")
                rec.count("rare_constructors_ok")
                rec.nontrivial(("rare", rname, tuple(cfg), "when" in v.ro, v.wopt is None, txt))
    finally:
        fam.dispose()


def run_case(seed, tier, rec, st):
    from mashumaro.codecs.basic import BasicDecoder, BasicEncoder
    import mashumaro.codecs.basic as basic
    rng = random.Random(seed)
    if rng.random() < 0.03:
        common.two_module_generic_case(rng, rec, "cg")
        return
    if rng.random() < 0.03:
        return rare_constructors_case(rng, rec)
    fam = Family("c01", future_annotations=rng.random() < 0.2)
    try:
        tg = TypeGen(fam, rng, dc_config_fn=config_fn)
        maxd = 2 if tier == "quick" else rng.choice([1, 2, 3, 3, 4])
        t = tg.type(rng.randint(0, maxd))
        if rng.random() < 0.03:
            t = tg.nullable_fixed_tuple()          # nullable position > fixed-shape tuple > nullable members
        if tg.allow_field_engine and tg.allow_named and rng.random() < 0.03:
            t = tg.nt_engine_dataclass()          # NamedTuple engine lattice (Config option x field option x position)
        ref = Ref(fam)
        nvals = 8 if tier == "quick" else 24
        # (a) codec shape
        try:
            enc, dec = BasicEncoder(fam.module.__dict__["_T"] if False else eval_type(fam, t)), None
            dec = BasicDecoder(eval_type(fam, t))
        except Exception as e:
            rec.violation(f"codec-build:{type(e).__name__}", {"type": tast.render(t), "error": str(e)[:300], "family": fam.to_json()},
                          {"stage": "build", "exc": type(e).__name__, "msg": str(e)[:200], "type_kinds": sorted({n[0] for n in common.deep_nodes(fam, t)})})
            return
        # (b) wrapper dataclass with the type as a field
        wname = tg.fresh("W")
        wcfg = config_fn(rng)
        wcfg.pop("_aliases", None)
        mixin = rng.random() < 0.7
        wfield = {"n": "x", "t": t}
        if wcfg.get("serialize_by_alias") == "True" or wcfg.get("allow_deserialization_not_by_alias") == "True":
            wfield["alias"] = "AX"          # the wrapper's own member is renamed on the wire (whatever value it holds, None included)
        fam.add({"k": "dc", "name": wname, "bases": [], "mixin": "DataClassDictMixin" if mixin else None,
                 "fields": [wfield], "config": wcfg}, tg.value_maker)
        W = fam.get(wname)
        if not mixin:
            wenc, wdec = BasicEncoder(W), BasicDecoder(W)
        vg = Gen(fam, rng)
        for j in range(nvals):
            v = vg.value(t, 3)
            rec.evaluation()
            routes = [("codec", enc.encode, dec.decode)]
            if j % 4 == 0:
                tt = eval_type(fam, t)
                routes.append(("func", lambda x: basic.encode(x, tt), lambda d: basic.decode(d, tt)))
            if mixin:
                routes.append(("mixin-field", lambda x: W(x).to_dict(), lambda d: W.from_dict(d).x))
            else:
                routes.append(("plain-field", lambda x: wenc.encode(W(x)), lambda d: wdec.decode(d).x))
            for rname, e, d in routes:
                try:
                    doc = e(v)
                except Exception as ex:
                    rec.violation(f"{rname}:encode-exception:{type(ex).__name__}",
                                  {"type": tast.render(t), "value": common.short(v), "error": f"{type(ex).__name__}: {ex}"[:300],
                                   "family": fam.to_json()},
                                  facts_for(fam, t, v, None, ex))
                    continue
                is_basic = ref_only_basic(doc)
                try:
                    back = d(doc)
                except Exception as ex:
                    rec.violation(f"{rname}:decode-exception:{type(ex).__name__}",
                                  {"type": tast.render(t), "value": common.short(v), "doc": common.short(doc),
                                   "error": f"{type(ex).__name__}: {ex}"[:300], "family": fam.to_json()},
                                  dict(facts_for(fam, t, v, None, ex), encoded_only_basic=is_basic))
                    continue
                if deep_eq(back, v, key_order=False, ordered_dicts=True):
                    rec.count("roundtrips_ok")
                else:
                    rec.violation(f"{rname}:roundtrip-mismatch:{mismatch_kind(v, back)}",
                                  {"type": tast.render(t), "value": common.short(v), "doc": common.short(doc),
                                   "decoded": common.short(back), "family": fam.to_json()},
                                  dict(facts_for(fam, t, v, back, None), encoded_only_basic=is_basic, **encode_side_facts(fam, t, v, doc, rname)))
            if nontrivial(v):
                rec.nontrivial((tast.shape_hash(t), repr(v)[:200]))
            if j == 0:
                rec.sample({"type": tast.render(t), "value": common.short(v, 160), "wrapper_config": wcfg})
    finally:
        fam.dispose()


def eval_type(fam, t):
    return common.eval_type(fam, t)


def nontrivial(v):
    if v is None or v == 0 or v == "" or v is False:
        return False
    try:
        return len(v) > 0
    except TypeError:
        return True


def mismatch_kind(v, back):
    import datetime
    if type(v) is not type(back):
        return f"class:{type(v).__name__}->{type(back).__name__}"
    return f"value:{type(v).__name__}"


def _find_tz(v, acc):
    import collections, dataclasses, datetime
    if isinstance(v, datetime.timezone):
        acc.append(v)
    elif isinstance(v, (datetime.datetime, datetime.time)) and isinstance(v.tzinfo, datetime.timezone):
        acc.append(v.tzinfo)
    elif dataclasses.is_dataclass(v) and not isinstance(v, type):
        for f in dataclasses.fields(v):
            _find_tz(getattr(v, f.name, None), acc)
    elif isinstance(v, collections.ChainMap):
        for m in v.maps:
            _find_tz(m, acc)
    elif hasattr(v, "items"):
        for k, x in v.items():
            _find_tz(k, acc)
            _find_tz(x, acc)
    elif isinstance(v, (list, tuple, set, frozenset, collections.deque)):
        for x in v:
            _find_tz(x, acc)


def ref_only_basic(doc):
    from ..ref import only_basic
    return only_basic(doc)


def facts_for(fam, t, v, back, exc):
    import datetime
    tzs = []
    _find_tz(v, tzs)
    neg_subhour = [z for z in tzs if datetime.timedelta(hours=-1) < z.utcoffset(None) < datetime.timedelta(0)]
    return {
        "type_kinds": sorted({n[0] for n in common.deep_nodes(fam, t)}),
        "has_negative_subhour_timezone": bool(neg_subhour),
        "union_copy_shortcut": common.union_copy_fact(fam, t),
        "exc": type(exc).__name__ if exc else None,
        "msg": str(exc)[:200] if exc else None,
    }


def encode_side_facts(fam, t, v, doc, rname):
    """was it the ENCODER that went wrong (finding F20: the union serializer took an earlier member whose packer did not
    raise)?  Facts: the document differs from the reference encoding, and a non-basic member is declared before the
    member the value belongs to."""
    from ..ref import Ref, Ctx, match, RefError
    ref = Ref(fam)
    try:
        exp = ref.enc(t, v, Ctx())
        d = doc["x"] if rname.endswith("-field") and isinstance(doc, dict) and "x" in doc else doc
        differs = not match(d, exp)
    except Exception:
        differs = None
    try:
        earlier = common.earlier_member(ref, t, v)
    except Exception:
        earlier = None
    return {"document_differs_from_reference_encoding": differs, "earlier_nonscalar_member_before_value_member": earlier}
