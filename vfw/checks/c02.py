"""C02 - serialization emits exactly the documented basic form."""
from __future__ import annotations

import json
import random

from .. import tast
from ..family import Family
from ..gen import TypeGen
from ..ref import (Ref, Ctx, match, only_basic, plain, ORJSON_NATIVES, MSGPACK_NATIVES,
                   TOML_NATIVES, BASIC)
from ..values import Gen
from . import common

LEVEL = "exploration"
RULE = ("case = random family + type AST (depth<=2 quick / <=4 thorough) x conforming values; observed encode "
        "results (BasicEncoder, one-shot encode, mixin to_dict, and the pre-encoding trees of to_jsonb/to_msgpack/"
        "to_toml obtained with an identity encoder= argument) are compared with REF_ENCODE(S, v): exact classes, "
        "order of fields/keys/elements, only basic types, json.dumps succeeds. distinct_nontrivial = distinct "
        "(type shape, value repr) pairs with a non-empty value.")
RULE += " Additions: codec objects of several formats for one class in random creation order (identity post_encoder_func exposes the tree); parse-only registrations above the format dialect."
ASSUMPTIONS = [
    "REF_ENCODE is my independent reading of the README representation tables (vfw/ref.py)",
    "TypedDict key order and set element order are not pinned (compared unordered)",
]
BUDGET_S = {"quick": 120, "thorough": 900}
MIN_EVENTS = {"quick": {"evaluations": 8000, "encode_match": 8000}, "thorough": {"evaluations": 200000, "encode_match": 200000}}


def n_cases(tier):
    return 4000 if tier == "quick" else 130000


def worker_setup(tier, rec):
    return common.install_monitors(rec)


def worker_finish(tier, rec, st):
    common.finish_monitors(rec, st)


def config_fn(rng):
    cfg = common.safe_config(rng)
    if rng.random() < 0.35:
        cfg["serialize_by_alias"] = "True"
        cfg["_aliases"] = True
    elif rng.random() < 0.2:
        cfg["_aliases"] = True     # aliases present but serialization by name
    return cfg


FORMAT_MIXINS = {
    "orjson": ("DataClassORJSONMixin", "to_jsonb", ORJSON_NATIVES, False),
    "msgpack": ("DataClassMessagePackMixin", "to_msgpack", MSGPACK_NATIVES, False),
    "toml": ("DataClassTOMLMixin", "to_toml", TOML_NATIVES, True),
}


def ident(x, **kw):
    return x


def run_case(seed, tier, rec, st):
    from mashumaro.codecs.basic import BasicEncoder
    import mashumaro.codecs.basic as mbasic
    rng = random.Random(seed)
    fam = Family("c02", future_annotations=rng.random() < 0.15)
    try:
        fmt = rng.choice([None, None, "orjson", "msgpack", "toml"])
        mixins = ("DataClassDictMixin",) if fmt is None else (FORMAT_MIXINS[fmt][0], "DataClassDictMixin")
        tg = TypeGen(fam, rng, dc_config_fn=config_fn, mixins=mixins)
        maxd = 2 if tier == "quick" else rng.choice([1, 2, 3, 3, 4])
        t = tg.type(rng.randint(0, maxd))
        if rng.random() < 0.03:
            t = tg.nullable_fixed_tuple()          # nullable position > fixed-shape tuple > nullable members
        if tg.allow_field_engine and tg.allow_named and rng.random() < 0.03:
            t = tg.nt_engine_dataclass()          # NamedTuple engine lattice (Config option x field option x position)
        ref = Ref(fam)
        opaque = ref.has_opaque(t)
        try:
            enc = BasicEncoder(common.eval_type(fam, t))
        except Exception as e:
            rec.violation(f"codec-build:{type(e).__name__}", {"type": tast.render(t), "error": str(e)[:300], "family": fam.to_json()},
                          {"stage": "build", "exc": type(e).__name__})
            return
        wname = tg.fresh("W")
        wcfg = config_fn(rng)
        wcfg.pop("_aliases", None)
        wmixin = FORMAT_MIXINS[fmt][0] if fmt else rng.choice(["DataClassDictMixin", None])
        dialect_hist = bool(fmt) and rng.random() < 0.5
        if dialect_hist:
            wcfg["code_generation_options"] = "[ADD_DIALECT_SUPPORT]"
            fam.exec_src("class EmptyD(Dialect):\n    pass\n")
        if fmt and rng.random() < 0.3:
            # a parse-only (one-way) registration for a type the format keeps native, on a level ABOVE the format dialect:
            # it says nothing about serialization, so the format dialect still decides (the tree keeps the native object)
            srcname = {"bytes": "bytes", "bytearray": "bytearray", "datetime": "datetime.datetime", "date": "datetime.date",
                       "time": "datetime.time", "uuid": "uuid.UUID"}
            present = sorted(k for k in FORMAT_MIXINS[fmt][2] if any(n[0] == k for n in common.deep_nodes(fam, t)))
            if present:
                reg = "{" + ", ".join(f"{srcname[k]}: {{'deserialize': _oneway_parse}}" for k in present if rng.random() < 0.8 or k == present[0]) + "}"
                fam.exec_src("def _oneway_parse(x):\n    return x\n")
                lvl = rng.choice(["config", "config-dialect"] + (["call-dialect"] if dialect_hist else []))
                if lvl == "config":
                    wcfg["serialization_strategy"] = reg
                elif lvl == "config-dialect":
                    fam.exec_src(f"class OneWayD(Dialect):\n    serialization_strategy = {reg}\n")
                    wcfg["dialect"] = "OneWayD"
                else:
                    fam.exec_src(f"class EmptyD(Dialect):\n    serialization_strategy = {reg}\n")
                rec.count(f"oneway_registration:{lvl}")
        fam.add({"k": "dc", "name": wname, "bases": [], "mixin": wmixin,
                 "fields": [{"n": "x", "t": t}], "config": wcfg}, tg.value_maker)
        W = fam.get(wname)
        # codec objects of several formats for the SAME classes, created in a random order around the basic encoder: each
        # exposes its pre-dump tree through an identity post_encoder_func and must keep its own natives (and only those)
        codec_trees, after = [], []
        if rng.random() < 0.35:
            from mashumaro.codecs.json import JSONEncoder
            from mashumaro.codecs.yaml import YAMLEncoder
            from mashumaro.codecs.msgpack import MessagePackEncoder
            kinds = [("json-codec-tree", JSONEncoder, ()), ("yaml-codec-tree", YAMLEncoder, ()), ("msgpack-codec-tree", MessagePackEncoder, MSGPACK_NATIVES)]
            rng.shuffle(kinds)
            kinds = kinds[:rng.randint(1, 3)]
            before = [k for k in kinds if rng.random() < 0.5]
            after = [k for k in kinds if k not in before]
            for nm, cls_, nat in before:
                codec_trees.append((nm, cls_(W, post_encoder_func=ident), nat))
        wenc = BasicEncoder(W)
        for nm, cls_, nat in after:
            codec_trees.append((nm, cls_(W, post_encoder_func=ident), nat))
        vg = Gen(fam, rng)
        nvals = 8 if tier == "quick" else 16
        tt = common.eval_type(fam, t)
        for j in range(nvals):
            v = vg.value(t, 3)
            rec.evaluation()
            obs = [("codec", lambda: enc.encode(v), t, v, Ctx())]
            if j % 4 == 1:
                obs.append(("func", lambda: mbasic.encode(v, tt), t, v, Ctx()))
            w = W(v)
            obs.append(("wrapper-codec", lambda: wenc.encode(w), ("dc", wname), w, Ctx()))
            if wmixin:
                obs.append(("wrapper-to_dict", lambda: w.to_dict(), ("dc", wname), w, Ctx()))
            for nm, ce, nat in codec_trees:
                obs.append((nm, (lambda ce=ce: ce.encode(w)), ("dc", wname), w, Ctx(natives=nat)))
            if fmt:
                _, meth, natives, drop = FORMAT_MIXINS[fmt]
                obs.append((f"{fmt}-tree", lambda: getattr(w, meth)(encoder=ident), ("dc", wname), w,
                            Ctx(natives=natives, drop_none=drop)))
                if dialect_hist:
                    # the same (empty) dialect passed to the format method and to to_dict, in
                    # both orders over the case: the format's natives must never leak into to_dict
                    D = fam.module.EmptyD
                    pair = [(f"{fmt}-tree+dialect", lambda: getattr(w, meth)(encoder=ident, dialect=D), ("dc", wname), w,
                             Ctx(natives=natives, drop_none=drop)),
                            ("to_dict+dialect", lambda: w.to_dict(dialect=D), ("dc", wname), w, Ctx())]
                    if seed & 1:
                        pair.reverse()
                    obs += pair
            for name, fn, tt_, vv, ctx in obs:
                try:
                    exp = ref.enc(tt_, vv, ctx)
                except Exception as e:
                    rec.count("ref_undefined")
                    continue
                try:
                    out = fn()
                except Exception as ex:
                    rec.violation(f"{name}:encode-exception:{type(ex).__name__}",
                                  {"type": tast.render(t), "value": common.short(v), "error": f"{type(ex).__name__}: {ex}"[:300],
                                   "family": fam.to_json()}, facts(fam, t, None, ctx))
                    continue
                if match(out, exp):
                    rec.count("encode_match")
                else:
                    rec.violation(f"{name}:ref-mismatch", {"type": tast.render(t), "value": common.short(v),
                                  "observed": common.short(out, 500), "expected": common.short(plain(exp), 500), "family": fam.to_json()},
                                  facts(fam, t, out, ctx))
                    continue
                if not opaque and not ctx.natives:
                    if not only_basic(out):
                        rec.violation(f"{name}:non-basic-output", {"type": tast.render(t), "observed": common.short(out, 400)}, facts(fam, t, out, ctx))
                    else:
                        try:
                            json.dumps(out)
                            rec.count("json_dumps_ok")
                        except Exception as ex:
                            rec.violation(f"{name}:json.dumps:{type(ex).__name__}", {"type": tast.render(t), "observed": common.short(out, 400), "error": str(ex)[:200]}, facts(fam, t, out, ctx))
            if len(repr(v)) > 4:
                rec.nontrivial((tast.shape_hash(t), repr(v)[:200]))
            if j == 0:
                rec.sample({"type": tast.render(t), "value": common.short(v, 160), "format": fmt, "wrapper_config": wcfg})
    finally:
        fam.dispose()


def facts(fam, t, out, ctx):
    return {
        "type_kinds": sorted({n[0] for n in common.deep_nodes(fam, t)}),
        "union_copy_shortcut": common.union_copy_fact(fam, t),
        "encoded_only_basic": None if out is None else only_basic(out),
        "natives": sorted(ctx.natives),
        "field_engine_over_format_native": common.engine_over_native(fam, t, ctx.natives),
    }
