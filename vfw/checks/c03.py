"""C03 - deserialization follows the documented coercions and is well typed."""
from __future__ import annotations

import random

from .. import tast
from ..family import Family
from ..gen import TypeGen
from ..hostile import mutations, junk_pool
from ..ref import Ref, RefError, Ctx, deep_eq, plain, fingerprint, ORJSON_NATIVES, MSGPACK_NATIVES, TOML_NATIVES
from ..values import Gen
from . import common

LEVEL = "exploration"
RULE = ("case = random family + type AST x (valid dump of a conforming value + 12 (quick) / 30 (thorough) hostile "
        "variants: one position replaced by a junk value from a 50-element pool, dropped/added keys, truncated/"
        "extended lists, list<->dict swaps, whole-argument junk). Oracle per input d: library returns r  =>  "
        "REF_DECODE(S,d) defined, deep_eq(r, ref) and CONFORMS(S,r) (exact classes); REF_DECODE defined => library "
        "returns. Routes: BasicDecoder, one-shot decode, dataclass field (mixin and plain). distinct_nontrivial = "
        "distinct (type shape, input fingerprint) pairs.")
RULE += " Additions: pre-parsed format trees through from_msgpack / from_toml / from_json(decoder=identity), with and without an empty call dialect, judged by the reference with the format's natives."
ASSUMPTIONS = [
    "REF_DECODE is an independent interpreter of the type hints that ends in the same stdlib constructors",
    "inputs are JSON-like trees plus a few non-JSON objects (tuple, bytes, object())",
    "F02 (None member turning unaccepted input into None) is a recorded finding pinned by the repository's tests",
]
BUDGET_S = {"quick": 120, "thorough": 900}
MIN_EVENTS = {"quick": {"evaluations": 60000, "agree_return": 15000, "agree_raise": 9000},
              "thorough": {"evaluations": 400000, "agree_return": 100000, "agree_raise": 60000}}


def n_cases(tier):
    return 9000 if tier == "quick" else 150000


def worker_setup(tier, rec):
    return common.install_monitors(rec)


def worker_finish(tier, rec, st):
    common.finish_monitors(rec, st)


def config_fn(rng):
    cfg = common.safe_config(rng)
    x = rng.random()
    if x < 0.2:
        cfg["serialize_by_alias"] = "True"
        cfg["_aliases"] = True
    elif x < 0.35:
        cfg["allow_deserialization_not_by_alias"] = "True"
        cfg["_aliases"] = True
    return cfg


def run_case(seed, tier, rec, st):
    from mashumaro.codecs.basic import BasicDecoder, BasicEncoder
    import mashumaro.codecs.basic as mbasic
    rng = random.Random(seed)
    if rng.random() < 0.03:
        common.two_module_generic_case(rng, rec, "cg")
        return
    fam = Family("c03", future_annotations=rng.random() < 0.15)
    try:
        tg = TypeGen(fam, rng, dc_config_fn=config_fn)
        maxd = 2 if tier == "quick" else rng.choice([1, 2, 3, 3, 4])
        t = tg.type(rng.randint(0, maxd))
        if rng.random() < 0.03:
            t = tg.nullable_fixed_tuple()          # nullable position > fixed-shape tuple > nullable members
        if tg.allow_field_engine and tg.allow_named and rng.random() < 0.03:
            t = tg.nt_engine_dataclass()          # NamedTuple engine lattice (Config option x field option x position)
        ref = Ref(fam)
        tt = common.eval_type(fam, t)
        try:
            enc, dec = BasicEncoder(tt), BasicDecoder(tt)
        except Exception as e:
            rec.violation(f"codec-build:{type(e).__name__}", {"type": tast.render(t), "error": str(e)[:300], "family": fam.to_json()},
                          {"stage": "build"})
            return
        wname = tg.fresh("W")
        wmixin = rng.random() < 0.6
        wx = {"n": "x", "t": t}
        FALSY = {"int": 0, "str": "", "bool": False, "float": 0.0, "decimal": __import__("decimal").Decimal(0),
                 "timedelta": __import__("datetime").timedelta(0), "fraction": __import__("fractions").Fraction(0)}
        if t[0] == "opt" and tast.strip(t[1])[0] in FALSY and rng.random() < 0.7:
            # a nullable member whose default is falsy but not None: an explicit null is still a value of its own
            wx.update(dmode="default", dseed=0, const_default=FALSY[tast.strip(t[1])[0]])
        fam.add({"k": "dc", "name": wname, "bases": [], "mixin": "DataClassDictMixin" if wmixin else None,
                 "fields": [wx]}, tg.value_maker)
        W = fam.get(wname)
        wdec = None if wmixin else BasicDecoder(W)
        vg = Gen(fam, rng)
        nhost = 12 if tier == "quick" else 30
        facts = type_facts(fam, ref, t)
        # the same type behind a format mixin: the pre-parsed tree (the format's natives left as objects) is handed to
        # from_<format>(..., decoder=identity), with and without a call dialect that customises nothing
        fmt = None
        if rng.random() < 0.25:
            fmt = rng.choice(list(FORMATS))
            fmix, fmeth, fnat, fdnat, fdrop = FORMATS[fmt]
            fname = tg.fresh("WF")
            fcfg = {}
            if rng.random() < 0.6:
                fcfg["code_generation_options"] = "[ADD_DIALECT_SUPPORT]"
                fam.exec_src("class EmptyD(Dialect):\n    pass\n")
            if rng.random() < 0.3:
                fcfg["lazy_compilation"] = "True"
            present = sorted(k for k in fnat if any(n[0] == k for n in common.deep_nodes(fam, t)))
            if present and rng.random() < 0.4:
                # a WRITE-only registration for a type the format reads natively, above the format dialect: reading is
                # still the format's own business
                srcname = {"bytes": "bytes", "bytearray": "bytearray", "datetime": "datetime.datetime", "date": "datetime.date", "time": "datetime.time", "uuid": "uuid.UUID"}
                fam.exec_src("def _keep(x):\n    return x\n")
                fcfg["serialization_strategy"] = "{" + ", ".join(f"{srcname[k]}: {{'serialize': _keep}}" for k in present) + "}"
                rec.count("write_only_registration_above_format_dialect")
            fam.add({"k": "dc", "name": fname, "bases": [], "mixin": fmix, "fields": [{"n": "x", "t": t}], "config": fcfg}, tg.value_maker)
            WF = fam.get(fname)
        for j in range(3):
            v = vg.value(t, 3)
            try:
                d0 = enc.encode(v)
            except Exception:
                rec.count("encode_failed")
                continue
            inputs = [("valid", d0, (), None)]
            inputs += mutations(d0, rng, nhost)
            for jv in rng.sample(junk_pool(), 3):
                inputs.append(("whole-arg", jv, (), jv))
            for label, d, path, injected in inputs:
                rec.evaluation()
                snap = fingerprint(d)
                routes = [("codec", lambda: dec.decode(d))]
                if rng.random() < 0.15:
                    routes.append(("func", lambda: mbasic.decode(d, tt)))
                if wmixin:
                    routes.append(("mixin-field", lambda: W.from_dict({"x": d}).x))
                else:
                    routes.append(("plain-field", lambda: wdec.decode({"x": d}).x))
                # the library goes first: the reference must not warm anything up for it (e.g. Flag(7) creates and
                # caches the composite pseudo-member the first time it is asked for)
                observed = []
                for rname, fn in routes:
                    try:
                        observed.append((rname, ("ok", fn())))
                    except Exception as ex:
                        observed.append((rname, ("raise", ex)))
                # reference
                try:
                    exp = ("ok", ref.dec(t, d, Ctx()))
                except RefError as e:
                    exp = ("raise", e)
                except RecursionError:
                    continue
                for rname, got in observed:
                    if d is None and tast.strip(t)[0] == "tv" and rname in ("codec", "func"):
                        # a bound TypeVar acts as Optional[bound] in field / nested positions; at the root of a
                        # codec there is no enclosing position, both outcomes are accepted there
                        rec.count("root_typevar_null_skipped")
                        continue
                    judge(rec, fam, ref, t, rname, label, d, exp, got, facts)
                if fingerprint(d) != snap:
                    rec.violation("input-mutated", {"type": tast.render(t), "input": common.short(d)}, facts)
                rec.nontrivial((tast.shape_hash(t), repr(snap)[:300]))
            if fmt:
                format_tree_decodes(rec, fam, ref, rng, t, v, fmt, fname, WF, "code_generation_options" in fcfg, facts)
            if j == 0:
                rec.sample({"type": tast.render(t), "valid_input": common.short(d0, 200),
                            "hostile": [common.short(x[1], 120) for x in inputs[1:4]]})
    finally:
        fam.dispose()


def _ident(x, **kw):
    return x


FORMATS = {
    # name: (mixin, decode method, natives kept on encode, natives passed through on decode, null fields dropped)
    "msgpack": ("DataClassMessagePackMixin", "from_msgpack", MSGPACK_NATIVES, MSGPACK_NATIVES, False),
    "toml": ("DataClassTOMLMixin", "from_toml", TOML_NATIVES, TOML_NATIVES, True),
    "orjson": ("DataClassORJSONMixin", "from_json", ORJSON_NATIVES, frozenset(), False),
}


def format_tree_decodes(rec, fam, ref, rng, t, v, fmt, fname, WF, dialect_support, facts):
    fmix, fmeth, fnat, fdnat, fdrop = FORMATS[fmt]
    w = WF(v)
    wt = ("dc", fname)
    ref.dropped_unrestorable_none = False
    try:
        tree = plain(ref.enc(wt, w, Ctx(natives=fdnat, drop_none=fdrop)))
    except Exception:
        rec.count("format_tree_ref_undefined")
        return
    if ref.dropped_unrestorable_none:
        rec.count("format_tree_discarded:none_not_representable")
        return
    inputs = [("valid", tree)] + [(lab, d) for lab, d, _p, _i in mutations(tree, rng, 3) if isinstance(d, dict)]
    meth = getattr(WF, fmeth)
    for label, d in inputs:
        routes = [(f"{fmt}-tree", lambda: meth(d, decoder=_ident))]
        if dialect_support:
            D = fam.module.EmptyD
            routes.append((f"{fmt}-tree+dialect", lambda: meth(d, decoder=_ident, dialect=D)))
        observed = []
        for rname, fn in routes:
            try:
                observed.append((rname, ("ok", fn())))
            except Exception as ex:
                observed.append((rname, ("raise", ex)))
        try:
            exp = ("ok", ref.dec(wt, d, Ctx(dnatives=fdnat)))
        except RefError as e:
            exp = ("raise", e)
        except RecursionError:
            continue
        for rname, got in observed:
            rec.evaluation()
            rec.count("format_tree_decodes")
            judge(rec, fam, ref, wt, rname, label, d, exp, got, dict(facts, format=fmt), Ctx(dnatives=fdnat))


def type_facts(fam, ref, t):
    nodes = list(common.deep_nodes(fam, t))
    none_union = False
    for n in nodes:
        if n[0] in ("union", "opt"):
            ms = ref.union_members(n) if n[0] == "union" or tast.strip(n[1])[0] == "union" else []
            if ("none",) in ms and len(ms) >= 3:
                none_union = True
    return {"type_kinds": sorted({n[0] for n in nodes}), "union_with_none_and_2_others": none_union}


QUIRKS = ("F02", "F24")


def explained_by(fam, t, d, got, ctx=None):
    """which recorded finding (if any) explains the observation: re-run the reference
    with exactly that one mechanism enabled and compare."""
    # each recorded mechanism alone, then both together (one input can run into both: a NamedTuple with defaults whose
    # first member is a union with a None member); the combination is attributed to the rarer one
    for q in ("F02", "F24", ("F02", "F24")):
        qref = Ref(fam, quirks=q if isinstance(q, tuple) else (q,))
        try:
            e = ("ok", qref.dec(t, d, ctx or Ctx()))
        except RefError as ex:
            e = ("raise", ex)
        if e[0] != got[0]:
            continue
        if e[0] == "raise" or deep_eq(got[1], e[1], key_order=False):
            return q if isinstance(q, str) else "F24"
    return None


def judge(rec, fam, ref, t, rname, label, d, exp, got, facts, ctx=None):
    if (got[0], exp[0]) != ("raise", "raise") and not (got[0] == exp[0] == "ok" and deep_eq(got[1], exp[1], key_order=False)):
        facts = dict(facts, explained_by=explained_by(fam, t, d, got, ctx))
    detail = lambda **kw: dict({"type": tast.render(t), "route": rname, "mutation": label, "input": common.short(d, 400),
                                "family": fam.to_json()}, **kw)
    if got[0] == "ok" and exp[0] == "ok":
        r, e = got[1], exp[1]
        if not deep_eq(r, e, key_order=False):
            rec.violation(f"{rname}:result-differs-from-reference", detail(observed=common.short(r, 400), expected=common.short(e, 400)),
                          dict(facts, observed_none=r is None, expected_none=e is None))
            return
        if not ref.conforms(t, r):
            if not ref.conforms(t, e):
                # the documented stdlib constructor itself returned a foreign object
                # (e.g. CPython's ZoneInfo((1, 2)) == 2): not attributable to the library
                rec.count("stdlib_constructor_quirk")
                return
            rec.violation(f"{rname}:result-not-conforming", detail(observed=common.short(r, 400)), facts)
            return
        rec.count("agree_return")
    elif got[0] == "raise" and exp[0] == "raise":
        rec.count("agree_raise")
    elif got[0] == "ok":
        rec.violation(f"{rname}:returned-where-reference-undefined",
                      detail(observed=common.short(got[1], 400), reference_error=str(exp[1])[:300]),
                      dict(facts, observed_none=got[1] is None, expected_none=False))
    else:
        ex = got[1]
        rec.violation(f"{rname}:raised-where-reference-defined:{type(ex).__name__}",
                      detail(error=f"{type(ex).__name__}: {ex}"[:300], expected=common.short(exp[1], 400)), facts)
