"""C04 - format codecs are lossless and equal the format encoding of the basic form."""
from __future__ import annotations

import json
import random

from .. import tast
from ..family import Family
from ..gen import TypeGen
from ..ref import (Ref, Ctx, deep_eq, plain, ORJSON_NATIVES, MSGPACK_NATIVES, TOML_NATIVES, only_basic)
from ..values import Gen
from . import common

LEVEL = "exploration"
RULE = ("case = random family + type AST x 5 formats x conforming values inside the format's representable subset "
        "(decided by the format library itself: dump+reload of the reference basic tree must be the identity and the "
        "native-typed reference tree must dump). Oracles: (a) decode_F(encode_F(v)) deep-equals v; (b) parse_F(doc) == "
        "parse_F(dump_F(REF_ENCODE_F(S,v))); (c) mixin method, Encoder/Decoder object, one-shot function and the codec "
        "objects built with a user default_dialect that sets nothing (merged over the format's own dialect) agree. "
        "distinct_nontrivial = distinct (format, type shape, value repr) triples kept (not discarded).")
RULE += " Additions: per-class Config.orjson_options (document == orjson.dumps(pre-dump tree, option=declared)); format methods and to_dict/from_dict under one empty call dialect in random order; msgpack codecs with a user dialect taking over bytes."
ASSUMPTIONS = [
    "the format libraries (json, orjson, PyYAML, msgpack, tomllib/tomli_w) are trusted to render the reference tree",
    "cases outside a format's representable subset are discarded and counted, never judged",
]
BUDGET_S = {"quick": 150, "thorough": 1200}
MIN_EVENTS = {"quick": {"evaluations": 6000, "roundtrip_ok": 3000, "doc_match": 3000},
              "thorough": {"evaluations": 150000, "roundtrip_ok": 75000, "doc_match": 75000}}


def n_cases(tier):
    return 2000 if tier == "quick" else 60000


def worker_setup(tier, rec):
    return common.install_monitors(rec)


def worker_finish(tier, rec, st):
    common.finish_monitors(rec, st)


def config_fn(rng):
    cfg = common.safe_config(rng)
    cfg.pop("lazy_compilation", None) if rng.random() < 0.5 else None
    if rng.random() < 0.25:
        cfg["serialize_by_alias"] = "True"
        cfg["_aliases"] = True
    return cfg


def formats():
    import json as _json
    import msgpack
    import orjson
    import tomllib
    import tomli_w
    import yaml
    from mashumaro.codecs import json as cj, orjson as co, yaml as cy, msgpack as cm, toml as ct
    Loader = getattr(yaml, "CSafeLoader", yaml.SafeLoader)
    Dumper = getattr(yaml, "CDumper", yaml.Dumper)
    return {
        "json": dict(E=cj.JSONEncoder, D=cj.JSONDecoder, fe=cj.json_encode, fd=cj.json_decode,
                     dump=_json.dumps, parse=_json.loads, mixin="DataClassJSONMixin", to="to_json", frm="from_json",
                     natives=frozenset(), dnatives=frozenset(), drop_none=False),
        "orjson": dict(E=co.ORJSONEncoder, D=co.ORJSONDecoder, fe=co.json_encode, fd=co.json_decode,
                       dump=orjson.dumps, parse=orjson.loads, mixin="DataClassORJSONMixin", to="to_jsonb", frm="from_json",
                       natives=ORJSON_NATIVES, dnatives=frozenset(), drop_none=False),
        "yaml": dict(E=cy.YAMLEncoder, D=cy.YAMLDecoder, fe=cy.yaml_encode, fd=cy.yaml_decode,
                     dump=lambda d: yaml.dump(d, Dumper=Dumper), parse=lambda s: yaml.load(s, Loader),
                     mixin="DataClassYAMLMixin", to="to_yaml", frm="from_yaml",
                     natives=frozenset(), dnatives=frozenset(), drop_none=False),
        "msgpack": dict(E=cm.MessagePackEncoder, D=cm.MessagePackDecoder, fe=cm.msgpack_encode, fd=cm.msgpack_decode,
                        dump=lambda d: msgpack.packb(d, use_bin_type=True), parse=lambda b: msgpack.unpackb(b, raw=False),
                        mixin="DataClassMessagePackMixin", to="to_msgpack", frm="from_msgpack",
                        natives=MSGPACK_NATIVES, dnatives=MSGPACK_NATIVES, drop_none=False),
        "toml": dict(E=ct.TOMLEncoder, D=ct.TOMLDecoder, fe=ct.toml_encode, fd=ct.toml_decode,
                     dump=tomli_w.dumps, parse=tomllib.loads, mixin="DataClassTOMLMixin", to="to_toml", frm="from_toml",
                     natives=TOML_NATIVES, dnatives=TOML_NATIVES, drop_none=True),
    }


_FORMATS = None


def run_case(seed, tier, rec, st):
    global _FORMATS
    if _FORMATS is None:
        _FORMATS = formats()
    rng = random.Random(seed)
    fname = rng.choice(["json", "orjson", "yaml", "msgpack", "toml", "orjson", "msgpack", "toml"])
    F = _FORMATS[fname]
    if rng.random() < 0.05:
        return discriminated_on_format_mixin(rng, rec, fname, F)
    if rng.random() < 0.03:
        return orjson_config_options_case(rng, rec)
    fam = Family("c04", future_annotations=rng.random() < 0.1)
    try:
        multi = rng.random() < 0.3
        mixins = [F["mixin"]]
        if multi:
            # json + orjson on one class both define from_json/to_json: not a sensible combination
            clash = {"json": "orjson", "orjson": "json"}.get(fname)
            others = [f["mixin"] for n, f in _FORMATS.items() if n != fname and n != clash]
            mixins += rng.sample(others, rng.randint(1, 2))
        mixin_src = ", ".join(mixins)
        # msgpack/orjson/toml need string map keys; keep the grammar and let the representability rule discard
        tg = TypeGen(fam, rng, dc_config_fn=config_fn, mixins=(mixin_src, "DataClassDictMixin"))
        maxd = 2 if tier == "quick" else rng.choice([1, 2, 3, 3])
        inner = tg.type(rng.randint(0, maxd))
        if tg.allow_field_engine and tg.allow_named and rng.random() < 0.03:
            inner = tg.nt_engine_dataclass()          # NamedTuple engine lattice (Config option x field option x position)
        wname = tg.fresh("W")
        wcfg = config_fn(rng)
        wcfg.pop("_aliases", None)
        nf = rng.randint(1, 3)
        fields = [{"n": "x", "t": inner}]
        for i in range(nf - 1):
            fields.append({"n": f"y{i}", "t": tg.type(rng.randint(0, 1))})
        if rng.random() < 0.35:
            # recursive wrapper: a Self-typed field next to a field of a type the format treats natively
            nat = sorted(F["natives"]) or ["datetime", "bytes"]
            fields.append({"n": "nat", "t": (rng.choice(nat),)})
            if rng.random() < 0.5:
                fields.append({"n": "nxt", "t": ("opt", ("self",), "Optional"), "dmode": "default", "dseed": 0, "const_default": None})
            else:
                fields.append({"n": "kids", "t": ("seq", "List", ("self",)), "dmode": "factory", "dseed": 0, "const_default": []})
        if F["natives"] and rng.random() < 0.25:
            # a WRITE-only registration (it keeps the value as it is) for a type the format handles natively, on a level
            # above the format dialect: it says nothing about reading, so the format's own rule still reads the type
            srcname = {"bytes": "bytes", "bytearray": "bytearray", "datetime": "datetime.datetime", "date": "datetime.date", "time": "datetime.time", "uuid": "uuid.UUID"}
            present = sorted(k for k in F["natives"] if any(n[0] == k for fld in fields for n in common.deep_nodes(fam, fld["t"])))
            if present:
                fam.exec_src("def _keep(x):\n    return x\n")
                reg = "{" + ", ".join(f"{srcname[k]}: {{'serialize': _keep}}" for k in present) + "}"
                if rng.random() < 0.5:
                    wcfg["serialization_strategy"] = reg
                else:
                    fam.exec_src(f"class WriteOnlyD(Dialect):\n    serialization_strategy = {reg}\n")
                    wcfg["dialect"] = "WriteOnlyD"
                rec.count("write_only_registration_above_format_dialect")
        call_dialect = rng.random() < 0.3
        if call_dialect:
            # the class accepts a call dialect; one that customises nothing is passed to the format methods AND to
            # to_dict / from_dict, in random order (the methods compiled per dialect must stay apart per format)
            wcfg["code_generation_options"] = "[ADD_DIALECT_SUPPORT]"
            fam.exec_src("class EmptyD(Dialect):\n    pass\n")
        fam.add({"k": "dc", "name": wname, "bases": [], "mixin": mixin_src, "fields": fields, "config": wcfg}, tg.value_maker)
        W = fam.get(wname)
        t = ("dc", wname)
        ref = Ref(fam)
        hexcodec = None
        if fname == "msgpack" and rng.random() < 0.4 and "serialization_strategy" not in wcfg and "dialect" not in wcfg:
            # codec objects with a user dialect that takes over a type the format keeps native (bytes as hex text):
            # encoder and decoder must both put the user's registration ABOVE the format's
            fam.exec_src("class HexD(Dialect):\n    serialization_strategy = {bytes: {'serialize': bytes.hex, 'deserialize': bytes.fromhex}}\n")
            try:
                hexcodec = (F["E"](W, default_dialect=fam.module.HexD), F["D"](W, default_dialect=fam.module.HexD))
            except Exception as e:
                rec.violation(f"{fname}:codec-build-custom-bytes-dialect:{type(e).__name__}", {"type": fam.to_json(), "error": str(e)[:300]}, {"stage": "build"})
                return
        if rng.random() < 0.5:
            # history: codec objects of ANOTHER format for the same class exist already
            try:
                from mashumaro.codecs.basic import BasicDecoder, BasicEncoder
                BasicEncoder(W), BasicDecoder(W)
                other_f = _FORMATS[rng.choice([n for n in _FORMATS if n != fname])]
                other_f["E"](W), other_f["D"](W)
                rec.count("history_codecs_of_other_formats_first")
            except Exception:
                pass
        try:
            enc, dec = F["E"](W), F["D"](W)
        except Exception as e:
            rec.violation(f"{fname}:codec-build:{type(e).__name__}", {"type": fam.to_json(), "error": str(e)[:300]}, {"stage": "build"})
            return
        # the same codecs with a user dialect that sets nothing: merged over the format's own dialect it must change nothing
        from mashumaro.dialect import Dialect
        neutral = rng.choice([type("Neutral", (Dialect,), {}), type("NeutralS", (Dialect,), {"serialization_strategy": {}})])
        try:
            enc_n, dec_n = F["E"](W, default_dialect=neutral), F["D"](W, default_dialect=neutral)
        except Exception as e:
            rec.violation(f"{fname}:codec-build-neutral-dialect:{type(e).__name__}", {"type": fam.to_json(), "error": str(e)[:300]}, {"stage": "build"})
            return
        # shape codec for the bare inner type too (not for TOML: table at top level)
        shape = None
        if fname != "toml":
            # history: codecs for the SAME members in the opposite declaration order were built first (typing compares
            # unions as sets; every codec object must keep its own order)
            rev = reverse_unions(inner)
            if rev != inner:
                try:
                    rt = common.eval_type(fam, rev)
                    F["E"](rt), F["D"](rt)
                    rec.count("history_codecs_for_reordered_unions")
                except Exception:
                    pass
            try:
                it = common.eval_type(fam, inner)
                shape = (F["E"](it), F["D"](it))
            except Exception as e:
                rec.violation(f"{fname}:codec-build:{type(e).__name__}", {"type": tast.render(inner), "error": str(e)[:300], "family": fam.to_json()}, {"stage": "build"})
                return
        vg = Gen(fam, rng)
        nvals = 5 if tier == "quick" else 8
        for j in range(nvals):
            w = vg.instance(wname, 3)
            targets = [("dataclass", t, w, enc, dec, True)]
            if shape is not None:
                targets.append(("shape", inner, getattr(w, "x"), shape[0], shape[1], False))
            for tname, tt, v, e_, d_, is_dc in targets:
                rec.evaluation()
                ctx_b = Ctx(drop_none=F["drop_none"])
                ctx_n = Ctx(natives=F["natives"], dnatives=F["dnatives"], drop_none=F["drop_none"])
                try:
                    ref.dropped_unrestorable_none = False
                    tree_b = plain(ref.enc(tt, v, ctx_b))
                    tree_n = plain(ref.enc(tt, v, ctx_n))
                except Exception:
                    rec.count("ref_undefined")
                    continue
                if F["drop_none"] and ref.dropped_unrestorable_none:
                    # TOML has no null: a None in a field without a None default cannot come back
                    rec.count(f"discarded:{fname}")
                    continue
                # representable subset, decided by the format library
                try:
                    back = F["parse"](F["dump"](tree_b))
                    ref_doc = F["dump"](tree_n)
                    ok = deep_eq(back, tree_b, key_order=False)
                except Exception:
                    ok = False
                if not ok:
                    rec.count(f"discarded:{fname}")
                    continue
                rec.count(f"kept:{fname}")
                docs = {}
                routes = [("codec", lambda: e_.encode(v), lambda doc: d_.decode(doc))]
                if is_dc:
                    routes.append(("mixin", lambda: getattr(v, F["to"])(), lambda doc: getattr(W, F["frm"])(doc)))
                    if multi and j == 0:
                        for om in mixins[1:]:
                            of = [f for f in _FORMATS.values() if f["mixin"] == om][0]
                            # exercising another format on the same class must not disturb this one
                            try:
                                getattr(W, of["frm"])(getattr(v, of["to"])())
                            except Exception:
                                pass
                if is_dc and j % 2 == 1:
                    routes.append(("codec-neutral-dialect", lambda: enc_n.encode(v), lambda doc: dec_n.decode(doc)))
                if is_dc and call_dialect:
                    ED = fam.module.EmptyD
                    def _dict_calls():
                        try:
                            W.from_dict(v.to_dict(dialect=ED), dialect=ED)
                        except Exception:
                            pass
                    if rng.random() < 0.5:
                        _dict_calls()
                    routes.append(("mixin+empty-call-dialect", lambda: getattr(v, F["to"])(dialect=ED), lambda doc: getattr(W, F["frm"])(doc, dialect=ED)))
                    if rng.random() < 0.5:
                        routes.append(("mixin-after-dict-calls-with-the-dialect", lambda: (_dict_calls(), getattr(v, F["to"])(dialect=ED))[1],
                                       lambda doc: getattr(W, F["frm"])(doc, dialect=ED)))
                if j % 3 == 0:
                    ttl = W if is_dc else common.eval_type(fam, tt)
                    routes.append(("func", lambda: F["fe"](v, ttl), lambda doc: F["fd"](doc, ttl)))
                try:
                    earlier = bool(common.earlier_member(ref, tt, v))
                except Exception:
                    earlier = None
                for rname, ef, df in routes:
                    facts = {"format": fname, "route": rname, "type_kinds": sorted({n[0] for n in common.deep_nodes(fam, tt)}),
                             "union_copy_shortcut": common.union_copy_fact(fam, tt),
                             "field_engine_over_format_native": common.engine_over_native(fam, tt, F["natives"]),
                             "earlier_nonscalar_member_before_value_member": earlier}
                    det = lambda **kw: dict({"format": fname, "route": rname, "target": tname, "type": tast.render(tt),
                                             "value": common.short(v, 400), "family": fam.to_json()}, **kw)
                    try:
                        doc = ef()
                    except Exception as ex:
                        try:
                            from mashumaro.codecs.basic import BasicEncoder
                            eob = only_basic(BasicEncoder(W if is_dc else common.eval_type(fam, tt)).encode(v))
                        except Exception:
                            eob = None
                        rec.violation(f"{fname}:{rname}:encode-exception:{type(ex).__name__}", det(error=f"{type(ex).__name__}: {ex}"[:300]),
                                      dict(facts, encoded_only_basic=eob))
                        continue
                    docs[rname] = doc
                    # (b) document equals the format encoding of the reference tree
                    try:
                        p_obs = F["parse"](doc)
                        p_ref = F["parse"](ref_doc)
                        if deep_eq(p_obs, p_ref, key_order=False):
                            rec.count("doc_match")
                        else:
                            rec.violation(f"{fname}:{rname}:document-differs-from-reference",
                                          det(parsed=common.short(p_obs, 500), expected=common.short(p_ref, 500)),
                                          dict(facts, encoded_only_basic=only_basic(p_obs)))
                            continue
                    except Exception as ex:
                        try:
                            from mashumaro.codecs.basic import BasicEncoder
                            eob = only_basic(BasicEncoder(W if is_dc else common.eval_type(fam, tt)).encode(v))
                        except Exception:
                            eob = None
                        rec.violation(f"{fname}:{rname}:unparsable-document:{type(ex).__name__}", det(doc=common.short(doc, 300)), dict(facts, encoded_only_basic=eob))
                        continue
                    # (a) round trip
                    try:
                        r = df(doc)
                    except Exception as ex:
                        rec.violation(f"{fname}:{rname}:decode-exception:{type(ex).__name__}", det(doc=common.short(doc, 300), error=f"{type(ex).__name__}: {ex}"[:300]),
                                      dict(facts, encoded_only_basic=True))
                        continue
                    if deep_eq(r, v, key_order=False):
                        rec.count("roundtrip_ok")
                    else:
                        rec.violation(f"{fname}:{rname}:roundtrip-mismatch", det(doc=common.short(doc, 300), decoded=common.short(r, 400)),
                                      dict(facts, encoded_only_basic=True))
                if is_dc and hexcodec is not None:
                    rec.evaluation()
                    try:
                        hdoc = hexcodec[0].encode(v)
                        hback = hexcodec[1].decode(hdoc)
                        hparsed = F["parse"](hdoc)
                    except Exception as ex:
                        rec.violation(f"{fname}:codec-custom-bytes-dialect:exception:{type(ex).__name__}", {"type": tast.render(tt), "value": common.short(v, 300),
                                      "error": f"{type(ex).__name__}: {ex}"[:300], "family": fam.to_json()}, {"format": fname, "route": "codec-custom-bytes-dialect"})
                    else:
                        def _has_raw_bytes(x):
                            if isinstance(x, bytes):
                                return True
                            if isinstance(x, dict):
                                return any(_has_raw_bytes(a) or _has_raw_bytes(b) for a, b in x.items())
                            return isinstance(x, (list, tuple)) and any(_has_raw_bytes(a) for a in x)
                        here = {n[0] for n in common.deep_nodes(fam, tt)}
                        # (bytes below an Any / pass_through position or in a nested class with its own Config are not the codec's)
                        strict = "bytes" in here and not ({"any", "dc", "gdc", "stype", "boxed", "lit", "bytearray"} & (here - {"dc"})) and sum(1 for n in common.deep_nodes(fam, tt) if n[0] == "dc") <= 1
                        if not deep_eq(hback, v, key_order=False):
                            rec.violation(f"{fname}:codec-custom-bytes-dialect:roundtrip-mismatch", {"type": tast.render(tt), "value": common.short(v, 300),
                                          "decoded": common.short(hback, 300), "document": common.short(hparsed, 300), "family": fam.to_json()},
                                          {"format": fname, "route": "codec-custom-bytes-dialect"})
                        elif strict and _has_raw_bytes(hparsed):
                            rec.violation(f"{fname}:codec-custom-bytes-dialect:native-bytes-in-document", {"type": tast.render(tt), "value": common.short(v, 300),
                                          "document": common.short(hparsed, 300), "family": fam.to_json()}, {"format": fname, "route": "codec-custom-bytes-dialect"})
                        else:
                            rec.count("custom_bytes_dialect_roundtrip_ok")
                # (c) routes agree
                parsed = {}
                for rn, doc in docs.items():
                    try:
                        parsed[rn] = F["parse"](doc)
                    except Exception:
                        pass
                names = list(parsed)
                for a, b in zip(names, names[1:]):
                    if not deep_eq(parsed[a], parsed[b], key_order=True):
                        rec.violation(f"{fname}:routes-disagree:{a}-vs-{b}", {"type": tast.render(tt), "a": common.short(parsed[a]), "b": common.short(parsed[b])},
                                      {"format": fname, "earlier_nonscalar_member_before_value_member": earlier})
                rec.nontrivial((fname, tast.shape_hash(inner), repr(v)[:200]))
                if j == 0 and tname == "dataclass":
                    rec.sample({"format": fname, "mixins": mixins, "inner_type": tast.render(inner), "value": common.short(v, 200),
                                "document": common.short(docs.get("codec"), 200)})
    finally:
        fam.dispose()


def orjson_config_options_case(rng, rec):
    """Config.orjson_options belongs to the class that declares it: several ORJSON classes with different options in one
    process, first used in random order; the document is what orjson makes of the pre-dump tree under THAT class's options."""
    import orjson
    fam = Family("c04o")
    try:
        opts = ["orjson.OPT_SORT_KEYS", "orjson.OPT_INDENT_2", "orjson.OPT_APPEND_NEWLINE", "orjson.OPT_NAIVE_UTC", "orjson.OPT_UTC_Z",
                "orjson.OPT_OMIT_MICROSECONDS", "orjson.OPT_SORT_KEYS | orjson.OPT_INDENT_2", "orjson.OPT_NAIVE_UTC | orjson.OPT_UTC_Z", None, None]
        n = rng.randint(2, 4)
        chosen = [rng.choice(opts) for _ in range(n)]
        src = "import orjson\n"
        for i, o in enumerate(chosen):
            lazy = "        lazy_compilation = True\n" if rng.random() < 0.3 else ""
            cfg = (f"    class Config(BaseConfig):\n        orjson_options = {o}\n" + lazy) if o else (("    class Config(BaseConfig):\n" + lazy) if lazy else "")
            src += (f"@dataclass\nclass O{i}(DataClassORJSONMixin):\n    zz: int = 1\n    when: datetime.datetime = datetime.datetime(2020, 1, 2, 3, 4, 5, 678)\n"
                    f"    aa: Dict[str, int] = field(default_factory=lambda: {{'b': 1, 'a': 2}})\n    aware: Optional[datetime.datetime] = None\n" + cfg)
        fam.exec_src(src)
        import datetime
        order = list(range(n))
        rng.shuffle(order)
        kw_first = [rng.random() < 0.5 for _ in range(n)]
        ident = lambda x, **kw: x
        for rnd in range(2):
            for i in order:
                rec.evaluation()
                cls = getattr(fam.module, f"O{i}")
                v = cls(zz=rnd, aware=datetime.datetime(2021, 5, 6, 7, 8, 9, 10, tzinfo=datetime.timezone.utc))
                declared = eval(chosen[i], {"orjson": orjson}) if chosen[i] else 0
                if rnd == 0 and kw_first[i]:
                    # the very first call of this class passes the options by keyword (for a lazy class: the compiling call)
                    try:
                        kdoc = v.to_jsonb(orjson_options=orjson.OPT_INDENT_2 | orjson.OPT_SORT_KEYS)
                        kexp = orjson.dumps(v.to_jsonb(encoder=ident), option=orjson.OPT_INDENT_2 | orjson.OPT_SORT_KEYS)
                    except Exception as ex:
                        kdoc, kexp = f"{type(ex).__name__}: {ex}"[:200], None
                    if kdoc != kexp:
                        rec.violation("orjson:config-options:keyword-options-ignored-on-the-first-call", {"source": src, "class": f"O{i}", "document": repr(kdoc)[:300],
                                      "expected": repr(kexp)[:300]}, {"format": "orjson", "scenario": "config-orjson-options"})
                    else:
                        rec.count("orjson_keyword_options_on_first_call_ok")
                try:
                    doc = v.to_jsonb()
                    exp = orjson.dumps(v.to_jsonb(encoder=ident), option=declared)
                    txt = v.to_json()
                except Exception as ex:
                    rec.violation(f"orjson:config-options:exception:{type(ex).__name__}", {"source": src, "class": f"O{i}", "order": order, "error": f"{type(ex).__name__}: {ex}"[:300]},
                                  {"format": "orjson", "scenario": "config-orjson-options"})
                    continue
                if doc == exp and txt == exp.decode():
                    rec.count("orjson_config_options_honoured")
                    rec.nontrivial(("orjson-config-options", tuple(chosen), tuple(order), i, rnd))
                else:
                    rec.violation("orjson:config-options:document-ignores-the-class-options", {"source": src, "class": f"O{i}", "declared": chosen[i], "first_use_order": order,
                                  "document": repr(doc)[:300], "expected": repr(exp)[:300]}, {"format": "orjson", "scenario": "config-orjson-options"})
    finally:
        fam.dispose()


def discriminated_on_format_mixin(rng, rec, fname, F):
    """variants of a discriminated hierarchy are compiled on first use: through from_<format> they must be compiled
    with the format's dialect (bytes / dates stay native on the wire), also when the first use is a decode."""
    import datetime
    fam = Family("c04d")
    try:
        mixin = F["mixin"]
        mode = rng.choice(["config", "annotated", "annotated-union"])
        cfg = "    class Config(BaseConfig):\n        discriminator = Discriminator(field='kind', include_subtypes=True)\n" if mode == "config" else ""
        fam.exec_src(f"@dataclass\nclass R({mixin}):\n    base: int = 0\n{cfg}"
                     "@dataclass\nclass VA(R):\n    kind = 'a'\n    raw: bytes = b'ab'\n    when: datetime.datetime = datetime.datetime(2020, 1, 2, 3, 4, 5)\n"
                     "@dataclass\nclass VB(R):\n    kind = 'b'\n    day: datetime.date = datetime.date(2021, 2, 3)\n    blob: bytearray = field(default_factory=lambda: bytearray(b'xy'))\n    t: datetime.time = datetime.time(1, 2, 3)\n")
        m = fam.module
        if mode == "config":
            fam.exec_src(f"@dataclass\nclass H({mixin}):\n    v: R\n    vs: List[R] = field(default_factory=list)\n")
        elif mode == "annotated":
            fam.exec_src(f"@dataclass\nclass H({mixin}):\n    v: Annotated[R, Discriminator(field='kind', include_subtypes=True)]\n    vs: List[Annotated[R, Discriminator(field='kind', include_subtypes=True)]] = field(default_factory=list)\n")
        else:
            fam.exec_src(f"@dataclass\nclass H({mixin}):\n    v: Annotated[Union[VA, VB], Discriminator(field='kind', include_supertypes=True)]\n    vs: List[Annotated[Union[VA, VB], Discriminator(field='kind', include_supertypes=True)]] = field(default_factory=list)\n")
        vals = [m.VA(1, b"\x00\xff", datetime.datetime(2022, 3, 4, 5, 6, 7)), m.VB(2, datetime.date(2023, 4, 5), bytearray(b"q"), datetime.time(4, 5, 6))]
        rng.shuffle(vals)
        to, frm = F["to"], F["frm"]
        for v in vals:
            h = m.H(v, [v])
            rec.evaluation()
            facts = {"format": fname, "route": "mixin", "scenario": "discriminated-on-format-mixin", "mode": mode}
            det = {"format": fname, "mode": mode, "value": common.short(h, 300), "source": "".join(fam.sources[1:])}
            try:
                # the document written by hand from the reference tree (tagged), so that the FIRST use of the variant
                # classes is the decode
                tree = {"v": tagged(v, F), "vs": [tagged(v, F)]}
                doc0 = F["dump"](tree)
                back0 = getattr(m.H, frm)(doc0)
                back = back0
            except Exception as ex:
                rec.violation(f"{fname}:discriminated:exception:{type(ex).__name__}", dict(det, error=f"{type(ex).__name__}: {ex}"[:300]), facts)
                continue
            if back == h and type(back.v) is type(v) and back0 == h and type(back0.v) is type(v):
                rec.count("roundtrip_ok")
                rec.count("discriminated_on_format_mixin_ok")
                rec.nontrivial((fname, "discriminated", mode, type(v).__name__))
            else:
                rec.violation(f"{fname}:discriminated:roundtrip-mismatch", dict(det, decoded=common.short(back, 300), decoded_from_reference_doc=common.short(back0, 300)), facts)
    finally:
        fam.dispose()


def tagged(v, F):
    """reference tree of a variant instance for format F (native types kept where the format declares them)."""
    import base64
    out = {"kind": type(v).kind}
    for f in __import__("dataclasses").fields(v):
        x = getattr(v, f.name)
        k = {"bytes": "bytes", "bytearray": "bytearray", "datetime": "datetime", "date": "date", "time": "time"}.get(type(x).__name__)
        if k is None or k in F["natives"]:
            out[f.name] = x
        elif k in ("bytes", "bytearray"):
            out[f.name] = base64.encodebytes(bytes(x)).decode()
        else:
            out[f.name] = x.isoformat()
    return out


def reverse_unions(t):
    """the same type with the members of every union in reverse declaration order."""
    k = t[0]
    if k == "union":
        return ("union", tuple(reverse_unions(m) for m in reversed(t[1]))) + tuple(t[2:])
    if k in ("seq", "counter", "vtuple"):
        return (k, t[1], reverse_unions(t[2])) + tuple(t[3:])
    if k in ("map", "chainmap"):
        return (k, t[1], t[2], reverse_unions(t[3]))
    if k == "tuple":
        return (k, t[1], tuple(reverse_unions(m) for m in t[2]))
    if k == "opt":
        return (k, reverse_unions(t[1])) + tuple(t[2:])
    return t
