"""C05 - failures surface only as the documented exceptions and name the culprit."""
from __future__ import annotations

import random

from .. import tast
from ..family import Family
from ..gen import TypeGen
from ..hostile import junk_pool, paths, set_at, get_at
from ..ref import (Ref, RefError, RefInvalid, RefMissing, RefExtra, RefNotMapping, Ctx, deep_eq, fingerprint)
from ..values import Gen
from . import common

LEVEL = "fault_enumeration"
RULE = ("per generated dataclass schema (2-5 fields, random defaults, kw_only layouts, aliases, forbid_extra_keys, "
        "allow_deserialization_not_by_alias, nested dataclasses/unions/containers) and valid input d: the single-"
        "position fault space {top-level key} x {junk pool} is enumerated (quick: 8 junk values per key, thorough: "
        "the whole 50-value pool), plus faults at nested positions, dropped keys, stranger keys, two simultaneous "
        "faults and non-mapping arguments. Oracle: outcome class and attributes predicted by the reference decoder "
        "(first bad field in declaration order, injected object identity, holder class, exact extra-key set); "
        "swallowed NameError monitor; input snapshot. distinct_nontrivial = distinct (schema shape, fault) pairs.")
ASSUMPTIONS = [
    "validity of a corrupted input is decided by the reference decoder (vfw/ref.py)",
    "junk pool is finite; non-JSON junk (tuple, bytes, object()) included",
]
BUDGET_S = {"quick": 150, "thorough": 1200}
MIN_EVENTS = {"quick": {"evaluations": 30000, "agree_invalid": 5000, "agree_missing": 500, "agree_ok": 3000},
              "thorough": {"evaluations": 1000000, "agree_invalid": 200000, "agree_missing": 20000, "agree_ok": 100000}}


def n_cases(tier):
    return 3000 if tier == "quick" else 40000


def worker_setup(tier, rec):
    return common.install_monitors(rec)


def worker_finish(tier, rec, st):
    common.finish_monitors(rec, st)


def make_schema(fam, tg, rng):
    name = tg.fresh("S")
    kw_only = rng.random() < 0.3
    n = rng.randint(2, 5)
    fields = []
    defaults_started = False
    for i in range(n):
        t = tg.type(rng.randint(0, 2))
        f = {"n": f"f{i}", "t": t}
        if (kw_only or defaults_started or i > 0) and rng.random() < (0.4 if kw_only else 0.3) or (defaults_started and not kw_only):
            f["dmode"] = rng.choice(["default", "factory"])
            f["dseed"] = rng.getrandbits(32)
            defaults_started = True
        fields.append(f)
    cfg = {}
    if rng.random() < 0.3:
        cfg["forbid_extra_keys"] = "True"
    x = rng.random()
    if x < 0.3:
        cfg["allow_deserialization_not_by_alias"] = "True"
    if rng.random() < 0.4:
        for i, f in enumerate(fields):
            y = rng.random()
            if y < 0.35:
                f["alias"] = f"AL{i}"
            elif y < 0.5:
                cfg.setdefault("_ca", {})[f["n"]] = f"CF{i}"
    ca = cfg.pop("_ca", None)
    if ca:
        cfg["aliases"] = repr(ca)
    if rng.random() < 0.2:
        cfg["lazy_compilation"] = "True"
    d = {"k": "dc", "name": name, "bases": [], "mixin": "DataClassDictMixin" if rng.random() < 0.75 else None,
         "fields": fields, "config": cfg}
    if kw_only:
        d["dc_args"] = {"kw_only": True}
    tg._fix_defaults(d)
    fam.add(d, tg.value_maker)
    return name


def run_case(seed, tier, rec, st):
    from mashumaro.codecs.basic import BasicDecoder, BasicEncoder
    from mashumaro import exceptions as mexc
    rng = random.Random(seed)
    fam = Family("c05", future_annotations=rng.random() < 0.1)
    try:
        tg = TypeGen(fam, rng, dc_config_fn=lambda r: common.safe_config(r))
        sname = make_schema(fam, tg, rng)
        S = fam.get(sname)
        df = fam.defs[sname]
        ref = Ref(fam)
        t = ("dc", sname)
        mixin = bool(df.get("mixin"))
        enc = BasicEncoder(S)
        dec = S.from_dict if mixin else BasicDecoder(S).decode
        vg = Gen(fam, rng)
        opts = ref.dc_opts(sname, Ctx())
        forbid = opts["forbid_extra"]
        pool = junk_pool()
        njunk = 8 if tier == "quick" else len(pool)
        raise_mon = st.get("raise")
        for j in range(2):
            v = vg.instance(sname, 3)
            try:
                d0 = enc.encode(v)
                # decode keys: by alias where the field is aliased (that is what from_dict reads)
                d0 = by_decode_keys(ref, sname, v, d0, opts)
            except Exception:
                rec.count("encode_failed")
                continue
            faults = [("valid", d0, None)]
            keys = list(d0.keys())
            for k in keys:
                for jv in (rng.sample(pool, njunk) if njunk < len(pool) else pool):
                    d2 = dict(d0)
                    d2[k] = jv
                    faults.append((f"replace:{k}", d2, jv))
                d2 = dict(d0)
                del d2[k]
                faults.append((f"drop:{k}", d2, None))
            # nested positions
            ps = [p for p in paths(d0) if len(p) >= 2]
            for p in rng.sample(ps, min(len(ps), 6 if tier == "quick" else 20)):
                jv = rng.choice(pool)
                faults.append(("nested", set_at(d0, p, jv), jv))
            # two simultaneous faults: the first bad field in declaration order must be named
            for _ in range(4 if tier == "quick" else 12):
                if len(keys) >= 2:
                    k1, k2 = rng.sample(keys, 2)
                    d2 = dict(d0)
                    for k in (k1, k2):
                        if rng.random() < 0.4:
                            del d2[k]
                        else:
                            d2[k] = rng.choice(pool)
                    faults.append(("double", d2, None))
            d2 = dict(d0)
            d2["stranger"] = 1
            faults.append(("stranger", d2, None))
            d2 = dict(d0)
            d2["None"] = 5
            faults.append(("stranger-None", d2, None))
            for jv in rng.sample(pool, 6):
                faults.append(("whole-arg", jv, jv))
            for label, d, injected in faults:
                rec.evaluation()
                snap = fingerprint(d)
                try:
                    exp = ("ok", ref.dec(t, d, Ctx()))
                except RefError as e:
                    exp = ("raise", e)
                if raise_mon is not None:
                    raise_mon.window()
                try:
                    got = ("ok", dec(d))
                except BaseException as ex:
                    got = ("raise", ex)
                swallowed = raise_mon.window() if raise_mon is not None else []
                judge(rec, fam, ref, mexc, S, sname, label, d, exp, got, forbid)
                for name, msg, fn in swallowed:
                    if name in ("NameError", "UnboundLocalError"):
                        rec.violation(f"swallowed:{name}", {"schema": fam.to_json(), "input": common.short(d), "message": msg, "function": fn},
                                      {"swallowed": name, "msg": msg})
                if fingerprint(d) != snap:
                    rec.violation("input-mutated", {"schema": fam.to_json(), "input": common.short(d)}, {})
                rec.nontrivial((sname_shape(fam, sname), label.split(":")[0], repr(snap)[:200]))
            if j == 0:
                rec.sample({"schema": fam.to_json()["source"][-600:], "valid_input": common.short(d0, 200),
                            "faults": [f[0] for f in faults[1:6]]})
    finally:
        fam.dispose()


def sname_shape(fam, sname):
    return tuple(tast.shape_hash(f["t"]) for f in fam.dc_fields(sname))


def by_decode_keys(ref, sname, v, d0, opts):
    """the valid input document keyed the way from_dict expects (alias if aliased)."""
    out = {}
    for f in ref.fam.dc_fields(sname):
        a = ref.field_alias(sname, f, opts)
        if f["n"] in d0:
            out[a if a is not None else f["n"]] = d0[f["n"]]
    return out


DOCUMENTED = ("MissingField", "InvalidFieldValue", "ExtraKeysError", "MissingDiscriminatorError", "SuitableVariantNotFoundError")


def classify(ref, mexc, S, sname, exp, got):
    """compare an observed outcome with a reference outcome.
    returns (agree_counter | None, violation_signature | None, extra_detail)."""
    if got[0] == "ok":
        if exp[0] == "ok":
            if deep_eq(got[1], exp[1], key_order=False) and ref.conforms(("dc", sname), got[1]):
                return "agree_ok", None, {}
            if not ref.conforms(("dc", sname), exp[1]):
                return "stdlib_constructor_quirk", None, {}
            return None, "result-differs-from-reference", {"observed": common.short(got[1], 400), "expected": common.short(exp[1], 400)}
        return None, f"returned-instance-for-invalid-input:{type(exp[1]).__name__}", {
            "observed": common.short(got[1], 400), "reference": str(exp[1])[:300]}
    ex = got[1]
    ename = type(ex).__name__
    err = f"{ename}: {ex}"[:300]
    if exp[0] == "ok":
        return None, f"raised-for-valid-input:{ename}", {"error": err, "expected": common.short(exp[1], 300)}
    e = exp[1]
    if isinstance(e, RefNotMapping) and e.args and e.args[0] == sname:
        if type(ex) is ValueError:
            return "agree_not_mapping", None, {}
        return None, f"non-mapping-argument:{ename}", {"error": err}
    if isinstance(e, RefMissing) and e.cls == sname:
        if type(ex) is mexc.MissingField and ex.field_name == e.field and ex.holder_class is S:
            return "agree_missing", None, {}
        return None, f"expected-MissingField:{ename}", {"error": err, "expected_field": e.field,
                                                        "observed_field": getattr(ex, "field_name", None)}
    if isinstance(e, RefExtra) and e.cls == sname:
        if type(ex) is mexc.ExtraKeysError and set(ex.extra_keys) == e.keys and ex.target_type is S:
            return "agree_extra", None, {}
        return None, f"expected-ExtraKeysError:{ename}", {"error": err, "expected_keys": sorted(map(str, e.keys)),
                                                          "observed_keys": sorted(map(str, getattr(ex, "extra_keys", []) or []))}
    if isinstance(e, RefInvalid) and e.cls == sname:
        if (type(ex) is mexc.InvalidFieldValue and ex.field_name == e.field and ex.holder_class is S
                and ex.field_value is e.value):
            return "agree_invalid", None, {}
        return None, f"expected-InvalidFieldValue:{ename}", {
            "error": err, "expected_field": e.field, "observed_field": getattr(ex, "field_name", None),
            "value_identity": getattr(ex, "field_value", None) is e.value,
            "holder_ok": getattr(ex, "holder_class", None) is S}
    # the reference failed for another reason (e.g. the dataclass constructor itself): any documented exception is fine
    if ename in DOCUMENTED or type(ex) is ValueError:
        return "agree_other_raise", None, {}
    return None, f"undocumented-exception:{ename}", {"error": err, "reference": str(e)[:200]}


def judge(rec, fam, ref, mexc, S, sname, label, d, exp, got, forbid):
    kind = label.split(":")[0]
    agree, sig, extra = classify(ref, mexc, S, sname, exp, got)
    if agree:
        rec.count(agree)
        return
    facts = {"fault": kind, "forbid_extra_keys": forbid, "input_is_mapping": hasattr(d, "get"),
             "exc": type(got[1]).__name__ if got[0] == "raise" else None,
             "explained_by": explained_by(fam, mexc, S, sname, d, got)}
    rec.violation(sig, dict({"schema": fam.to_json(), "fault": label, "input": common.short(d, 500)}, **extra), facts)


def explained_by(fam, mexc, S, sname, d, got):
    """is the observation exactly what a reference with ONE recorded finding's mechanism enabled predicts?"""
    for q in ("F02", "F24"):
        qref = Ref(fam, quirks=(q,))
        try:
            e = ("ok", qref.dec(("dc", sname), d, Ctx()))
        except RefError as ex:
            e = ("raise", ex)
        agree, sig, _ = classify(qref, mexc, S, sname, e, got)
        if agree:
            return q
    return None
