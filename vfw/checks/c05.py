"""C05 - failures surface only as the documented exceptions and name the culprit."""
from __future__ import annotations

import random

from .. import tast
from ..family import Family
from ..gen import TypeGen
from ..hostile import junk_pool, paths, set_at, get_at
from ..ref import (Ref, RefError, RefInvalid, RefMissing, RefExtra, RefNotMapping, Ctx, deep_eq, fingerprint)
from ..values import Gen
from . import common

LEVEL = "fault_enumeration"
RULE = ("per generated dataclass schema (2-5 fields, random defaults, kw_only layouts, aliases, forbid_extra_keys, "
        "allow_deserialization_not_by_alias, nested dataclasses/unions/containers) and valid input d: the single-"
        "position fault space {top-level key} x {junk pool} is enumerated (quick: 8 junk values per key, thorough: "
        "the whole 50-value pool), plus faults at nested positions, dropped keys, stranger keys, two simultaneous "
        "faults and non-mapping arguments. Oracle: outcome class and attributes predicted by the reference decoder "
        "(first bad field in declaration order, injected object identity, holder class, exact extra-key set); "
        "swallowed NameError monitor; input snapshot. distinct_nontrivial = distinct (schema shape, fault) pairs.")
RULE += " Additions: explicit null for every member; nested structural faults (dropped key of a nested mapping, nested list cut short); both the class's own method and the codec."
ASSUMPTIONS = [
    "validity of a corrupted input is decided by the reference decoder (vfw/ref.py)",
    "junk pool is finite; non-JSON junk (tuple, bytes, object()) included",
]
BUDGET_S = {"quick": 150, "thorough": 1200}
MIN_EVENTS = {"quick": {"evaluations": 30000, "agree_invalid": 5000, "agree_missing": 500, "agree_ok": 3000},
              "thorough": {"evaluations": 1000000, "agree_invalid": 200000, "agree_missing": 20000, "agree_ok": 100000}}


def n_cases(tier):
    return 3000 if tier == "quick" else 40000


def worker_setup(tier, rec):
    return common.install_monitors(rec)


def worker_finish(tier, rec, st):
    common.finish_monitors(rec, st)


GENERIC_ARGS = [("date",), ("ip", "IPv4Address"), ("decimal",), ("timedelta",), ("uuid",), ("fraction",)]


def make_generic_schema(fam, tg, rng):
    """S(G[arg]): the field typed by the bare TypeVar is the only mention of arg's module in the whole class."""
    tvn = tg.fresh("T")
    fam.add({"k": "typevar", "name": tvn})
    g = tg.fresh("G")
    mixin = "DataClassDictMixin" if rng.random() < 0.75 else None
    gfields = [{"n": "g", "t": ("tv", tvn)}, {"n": "n", "t": ("int",), "dmode": "default", "dseed": 1, "const_default": 0}]
    if rng.random() < 0.5:
        gfields.append({"n": "gs", "t": ("seq", "List", ("tv", tvn)), "dmode": "factory", "dseed": 0, "const_default": []})
    fam.add({"k": "dc", "name": g, "bases": [], "mixin": mixin, "generic": [tvn], "fields": gfields}, tg.value_maker)
    arg = rng.choice(GENERIC_ARGS)
    name = tg.fresh("S")
    cfg = {"forbid_extra_keys": "True"} if rng.random() < 0.3 else {}
    if rng.random() < 0.2:
        cfg["lazy_compilation"] = "True"
    own = [{"n": "s", "t": rng.choice([("str",), ("int",)]), "dmode": "default", "dseed": 2, "const_default": rng.choice(["", 5])}]
    fam.add({"k": "dc", "name": name, "bases": [f"{g}[{tast.render(arg)}]"], "mixin": None, "fields": own, "config": cfg,
             "tv_bind": {tvn: arg}}, tg.value_maker)
    return name


def make_schema(fam, tg, rng):
    if rng.random() < 0.1:
        return make_generic_schema(fam, tg, rng)
    name = tg.fresh("S")
    kw_only = rng.random() < 0.3
    n = rng.randint(2, 5)
    fields = []
    defaults_started = False
    for i in range(n):
        t = tg.type(rng.randint(0, 2))
        if rng.random() < 0.03:
            t = tg.nullable_fixed_tuple()          # nullable position > fixed-shape tuple > nullable members
        if tg.allow_field_engine and tg.allow_named and rng.random() < 0.03:
            t = tg.nt_engine_dataclass()          # NamedTuple engine lattice (Config option x field option x position)
        f = {"n": f"f{i}", "t": t}
        if (kw_only or defaults_started or i > 0) and rng.random() < (0.4 if kw_only else 0.3) or (defaults_started and not kw_only):
            f["dmode"] = rng.choice(["default", "factory"])
            f["dseed"] = rng.getrandbits(32)
            defaults_started = True
        fields.append(f)
    cfg = {}
    if rng.random() < 0.3:
        cfg["forbid_extra_keys"] = "True"
    x = rng.random()
    if x < 0.3:
        cfg["allow_deserialization_not_by_alias"] = "True"
    if rng.random() < 0.4:
        for i, f in enumerate(fields):
            y = rng.random()
            if y < 0.35:
                f["alias"] = f"AL{i}"
            elif y < 0.5:
                cfg.setdefault("_ca", {})[f["n"]] = f"CF{i}"
    ca = cfg.pop("_ca", None)
    if ca:
        cfg["aliases"] = repr(ca)
    if rng.random() < 0.2:
        cfg["lazy_compilation"] = "True"
    mixin = "DataClassDictMixin" if rng.random() < 0.75 else None
    d = {"k": "dc", "name": name, "bases": [], "mixin": mixin, "fields": fields, "config": cfg}
    if kw_only:
        d["dc_args"] = {"kw_only": True}
    tg._fix_defaults(d)
    if rng.random() < 0.45:
        # a parent declares a prefix of the fields differently; the class re-declares them with a PLAIN default
        # (no field()): nullable-with-None in the parent -> not nullable here; required in the parent -> defaulted here
        m = rng.randint(1, len(fields))
        pfields, redeclared = [], []
        for f in fields[:m]:
            pf = dict(f)
            pf.pop("alias", None)
            plain = f.get("dmode") == "default" and "alias" not in f
            if plain and tast.strip(f["t"])[0] not in ("opt", "none", "any", "union", "tv", "lit") and rng.random() < 0.6:
                pf.update(t=("opt", f["t"], "Optional"), dmode="default", const_default=None)
                redeclared.append(f)
            elif plain and kw_only and rng.random() < 0.5:
                pf.pop("dmode", None), pf.pop("dseed", None), pf.pop("const_default", None)
                redeclared.append(f)
            elif "alias" in f:
                redeclared.append(f)         # keeps its alias metadata: declared here, not in the parent
            pfields.append(pf)
        if any(f.get("alias") is None for f in redeclared):
            tg.redeclared_count = getattr(tg, "redeclared_count", 0) + 1
            pname = tg.fresh("P")
            pd = {"k": "dc", "name": pname, "bases": [], "mixin": mixin, "fields": pfields}
            if kw_only:
                pd["dc_args"] = {"kw_only": True}
            fam.add(pd, tg.value_maker)
            d.update(bases=[pname], mixin=None, fields=redeclared + fields[m:])
    fam.add(d, tg.value_maker)
    return name


def run_case(seed, tier, rec, st):
    from mashumaro.codecs.basic import BasicDecoder, BasicEncoder
    from mashumaro import exceptions as mexc
    rng = random.Random(seed)
    fam = Family("c05", future_annotations=rng.random() < 0.1)
    try:
        if rng.random() < 0.12:
            run_discriminated(rng, tier, rec, st, fam)
            return
        tg = TypeGen(fam, rng, dc_config_fn=lambda r: common.safe_config(r))
        sname = make_schema(fam, tg, rng)
        if getattr(tg, "redeclared_count", 0):
            rec.count("schemas_with_parent_child_redeclaration")
        S = fam.get(sname)
        df = fam.defs[sname]
        ref = Ref(fam)
        t = ("dc", sname)
        mixin = hasattr(S, "from_dict")          # (declared on the class or inherited from a parent)
        enc = BasicEncoder(S)
        cdec = BasicDecoder(S).decode
        decs = [S.from_dict, cdec] if mixin else [cdec]
        vg = Gen(fam, rng)
        opts = ref.dc_opts(sname, Ctx())
        forbid = opts["forbid_extra"]
        pool = junk_pool()
        njunk = 8 if tier == "quick" else len(pool)
        raise_mon = st.get("raise")
        for j in range(2):
            dec = decs[j % len(decs)]           # the class's own compiled method, then the codec built for it
            v = vg.instance(sname, 3)
            try:
                d0 = enc.encode(v)
                # decode keys: by alias where the field is aliased (that is what from_dict reads)
                d0 = by_decode_keys(ref, sname, v, d0, opts)
            except Exception:
                rec.count("encode_failed")
                continue
            faults = [("valid", d0, None)]
            keys = list(d0.keys())
            for k in keys:
                for jv in (rng.sample(pool, njunk) if njunk < len(pool) else pool):
                    d2 = dict(d0)
                    d2[k] = jv
                    faults.append((f"replace:{k}", d2, jv))
                d2 = dict(d0)
                del d2[k]
                faults.append((f"drop:{k}", d2, None))
                # an explicit null for every member (the junk value most often special-cased by generated code)
                d2 = dict(d0)
                d2[k] = None
                faults.append((f"null:{k}", d2, None))
            # nested positions
            ps = [p for p in paths(d0) if len(p) >= 2]
            for p in rng.sample(ps, min(len(ps), 6 if tier == "quick" else 20)):
                jv = rng.choice(pool)
                faults.append(("nested", set_at(d0, p, jv), jv))
            # an explicit null at nested positions (the junk value most often special-cased by generated code)
            for p in rng.sample(ps, min(len(ps), 8 if tier == "quick" else 24)):
                faults.append(("nested-null", set_at(d0, p, None), None))
            # structural faults at nested positions: one key of a nested mapping dropped (NamedTuple-as-dict, TypedDict,
            # nested dataclass), a nested list cut short (tuples, NamedTuples with and without defaults)
            nps = [p for p in paths(d0) if len(p) >= 1 and isinstance(get_at(d0, p), (dict, list)) and get_at(d0, p)]
            for p in rng.sample(nps, min(len(nps), 6 if tier == "quick" else 20)):
                tgt = get_at(d0, p)
                if isinstance(tgt, dict):
                    k = rng.choice(list(tgt))
                    faults.append(("nested-drop-key", set_at(d0, p, {a: b for a, b in tgt.items() if a != k}), None))
                else:
                    cut = rng.randrange(len(tgt))
                    faults.append(("nested-cut", set_at(d0, p, list(tgt[:cut]) + list(tgt[cut + 1:])), None))
            # two simultaneous faults: the first bad field in declaration order must be named
            for _ in range(4 if tier == "quick" else 12):
                if len(keys) >= 2:
                    k1, k2 = rng.sample(keys, 2)
                    d2 = dict(d0)
                    for k in (k1, k2):
                        if rng.random() < 0.4:
                            del d2[k]
                        else:
                            d2[k] = rng.choice(pool)
                    faults.append(("double", d2, None))
            d2 = dict(d0)
            d2["stranger"] = 1
            faults.append(("stranger", d2, None))
            d2 = dict(d0)
            d2["None"] = 5
            faults.append(("stranger-None", d2, None))
            # unexpected keys that are not strings (YAML / msgpack documents have them): reported as they are
            for k in (7, True, None, 1.5, ("t", 1)):
                d2 = dict(d0)
                d2[k] = 1
                faults.append(("stranger-nonstring", d2, None))
            d2 = dict(d0)
            d2[1], d2["1"] = "a", "b"
            faults.append(("stranger-nonstring", d2, None))
            for jv in rng.sample(pool, 6):
                faults.append(("whole-arg", jv, jv))
            for label, d, injected in faults:
                rec.evaluation()
                snap = fingerprint(d)
                try:
                    exp = ("ok", ref.dec(t, d, Ctx()))
                except RefError as e:
                    exp = ("raise", e)
                if raise_mon is not None:
                    raise_mon.window()
                try:
                    got = ("ok", dec(d))
                except BaseException as ex:
                    got = ("raise", ex)
                swallowed = raise_mon.window() if raise_mon is not None else []
                judge(rec, fam, ref, mexc, S, sname, label, d, exp, got, forbid)
                for name, msg, fn in swallowed:
                    if name in ("NameError", "UnboundLocalError"):
                        rec.violation(f"swallowed:{name}", {"schema": fam.to_json(), "input": common.short(d), "message": msg, "function": fn},
                                      {"swallowed": name, "msg": msg})
                if fingerprint(d) != snap:
                    rec.violation("input-mutated", {"schema": fam.to_json(), "input": common.short(d)}, {})
                rec.nontrivial((sname_shape(fam, sname), label.split(":")[0], repr(snap)[:200]))
            if j == 0:
                rec.sample({"schema": fam.to_json()["source"][-600:], "valid_input": common.short(d0, 200),
                            "faults": [f[0] for f in faults[1:6]]})
    finally:
        fam.dispose()


DISCR_TYPES = {
    # annotation: (valid wires with values, junk that cannot convert)
    "int": ([(3, 3), ("17", 17)], ["zz", None, [1]]),
    "datetime.date": ([("2020-01-02", __import__("datetime").date(2020, 1, 2))], ["nope", 5, None]),
    "List[int]": ([([1, 2], [1, 2]), ([], [])], [["x"], 5, None]),
    "uuid.UUID": ([("12345678-1234-5678-1234-567812345678", __import__("uuid").UUID("12345678-1234-5678-1234-567812345678"))], ["nope", 5]),
    "Optional[int]": ([(None, None), (4, 4)], ["zz", [1]]),
}


def run_discriminated(rng, tier, rec, st, fam):
    """hierarchy dispatched on a tag field: the failure must still be the documented one and name the culprit of the
    VARIANT (MissingField / InvalidFieldValue with holder_class == variant), also when the faulty input is the first
    one ever dispatched through the base or the first one after a new subclass was defined."""
    from mashumaro.codecs.basic import BasicDecoder
    from mashumaro import exceptions as mexc
    mode = rng.choice(["config", "annotated"])
    lazy = "        lazy_compilation = True\n" if rng.random() < 0.15 else ""
    cfg = ("    class Config(BaseConfig):\n        discriminator = Discriminator(field='kind', include_subtypes=True)\n" + lazy) if mode == "config" else ""
    fam.exec_src("@dataclass\nclass R(DataClassDictMixin):\n    base: int\n" + cfg)
    mod = fam.module
    classes = {"R": {"parent": None, "tag": None, "fields": [("base", "int", True)]}}
    counter = [0]

    def define(parent):
        counter[0] += 1
        name = f"V{counter[0]}"
        tag = f"t{counter[0]}"
        own = []
        lines = [f"    kind = {tag!r}"]
        started = False
        for i in range(rng.randint(1, 3)):
            ann = rng.choice(list(DISCR_TYPES))
            req = not started and rng.random() < 0.7
            fn = f"{name.lower()}_{i}"
            if req:
                lines.append(f"    {fn}: {ann} = field(kw_only=True)")
            else:
                started = True
                lines.append(f"    {fn}: {ann} = field(default=None, kw_only=True)" if ann.startswith("Optional") else
                             f"    {fn}: {ann} = field(default_factory=lambda: _V.get('nodefault'), kw_only=True)")
            own.append((fn, ann, req))
        fam.exec_src(f"@dataclass\nclass {name}({parent}):\n" + "\n".join(lines) + "\n")
        classes[name] = {"parent": parent, "tag": tag, "fields": classes[parent]["fields"] + own}
        return name
    for _ in range(rng.randint(2, 3)):
        define(rng.choice(list(classes)))
    if mode == "config":
        decode = lambda d: mod.R.from_dict(d)
    else:
        fam.exec_src("DISC = Annotated[R, Discriminator(field='kind', include_subtypes=True)]\n")
        decode = BasicDecoder(mod.DISC).decode
    nev = 10 if tier == "quick" else 24
    first = True
    fresh_cls = None
    for ev in range(nev):
        if ev and rng.random() < 0.15:
            fresh_cls = define(rng.choice(list(classes)))
        variants = [c for c in classes if classes[c]["tag"] is not None]
        target = fresh_cls or rng.choice(variants)
        V = getattr(mod, target)
        d = {"kind": classes[target]["tag"]}
        expv = {}
        for fn, ann, req in classes[target]["fields"]:
            wire, val = rng.choice(DISCR_TYPES[ann][0])
            d[fn] = wire
            expv[fn] = val
        fault = rng.choice(["valid", "drop-required", "junk", "no-tag", "unknown-tag", "drop-required", "junk", "two"])
        exp = None
        injected = None
        fnames = [f for f in classes[target]["fields"]]
        if fault == "no-tag":
            del d["kind"]
            exp = ("MissingDiscriminatorError", None)
        elif fault == "unknown-tag":
            d["kind"] = rng.choice(["nobody", "", "T1", 5, None])
            exp = ("SuitableVariantNotFoundError", None)
        elif fault in ("drop-required", "junk", "two"):
            hit = {}
            for _k in range(2 if fault == "two" else 1):
                fn, ann, req = rng.choice(fnames)
                how = "drop" if (fault == "drop-required" or (fault == "two" and rng.random() < 0.5)) else "junk"
                if how == "drop":
                    if not req:
                        continue
                    d.pop(fn, None)
                    hit[fn] = ("MissingField", None)
                elif fn not in hit:
                    jv = rng.choice(DISCR_TYPES[ann][1])
                    if isinstance(jv, list):
                        jv = list(jv)
                    d[fn] = jv
                    hit[fn] = ("InvalidFieldValue", jv)
            for fn, ann, req in fnames:       # first faulty field in declaration order
                if fn in hit:
                    exp = (hit[fn][0], fn)
                    injected = hit[fn][1]
                    break
        if exp is None:
            exp = ("ok", None)
        rec.evaluation()
        facts = {"scenario": "discriminated", "mode": mode, "fault": fault, "first_dispatch_ever": first,
                 "first_dispatch_of_new_subclass": fresh_cls is not None}
        det = lambda **kw: dict({"schema": fam.to_json(), "input": common.short(d, 400), "variant": target, "expected": list(exp)}, **kw)
        first = False
        fresh_cls = None
        try:
            got = decode(dict(d))
        except Exception as ex:
            en = type(ex).__name__
            ok = en == exp[0]
            if ok and en in ("MissingField", "InvalidFieldValue"):
                ok = ex.field_name == exp[1] and ex.holder_class is V and (en == "MissingField" or ex.field_value is injected)
            if ok and en == "MissingDiscriminatorError":
                ok = ex.field_name == "kind"
            if ok:
                rec.count("agree_discriminated_raise")
            else:
                rec.violation(f"discriminated:expected-{exp[0]}:{en}", det(error=f"{en}: {ex}"[:300], observed_field=getattr(ex, "field_name", None),
                              holder=getattr(getattr(ex, "holder_class", None), "__name__", None)), facts)
            continue
        if exp[0] != "ok":
            rec.violation(f"discriminated:returned-instance-for-invalid-input:{exp[0]}", det(observed=common.short(got, 300)), facts)
        elif type(got) is not V or any(getattr(got, k) != v or type(getattr(got, k)) is not type(v) for k, v in expv.items()):
            rec.violation("discriminated:result-differs", det(observed=common.short(got, 300)), facts)
        else:
            rec.count("agree_discriminated_ok")
        rec.nontrivial(("discriminated", mode, fault, target, len(classes)))


def sname_shape(fam, sname):
    return tuple(tast.shape_hash(f["t"]) for f in fam.dc_fields(sname))


def by_decode_keys(ref, sname, v, d0, opts):
    """the valid input document keyed the way from_dict expects (alias if aliased)."""
    out = {}
    for f in ref.fam.dc_fields(sname):
        a = ref.field_alias(sname, f, opts)
        if f["n"] in d0:
            out[a if a is not None else f["n"]] = d0[f["n"]]
    return out


DOCUMENTED = ("MissingField", "InvalidFieldValue", "ExtraKeysError", "MissingDiscriminatorError", "SuitableVariantNotFoundError")


def classify(ref, mexc, S, sname, exp, got):
    """compare an observed outcome with a reference outcome.
    returns (agree_counter | None, violation_signature | None, extra_detail)."""
    if got[0] == "ok":
        if exp[0] == "ok":
            if deep_eq(got[1], exp[1], key_order=False) and ref.conforms(("dc", sname), got[1]):
                return "agree_ok", None, {}
            if not ref.conforms(("dc", sname), exp[1]):
                return "stdlib_constructor_quirk", None, {}
            return None, "result-differs-from-reference", {"observed": common.short(got[1], 400), "expected": common.short(exp[1], 400)}
        return None, f"returned-instance-for-invalid-input:{type(exp[1]).__name__}", {
            "observed": common.short(got[1], 400), "reference": str(exp[1])[:300]}
    ex = got[1]
    ename = type(ex).__name__
    try:
        err = f"{ename}: {ex}"[:300]
    except Exception as e2:
        err = f"{ename}: <str() failed: {type(e2).__name__}: {e2}>"[:300]
    if exp[0] == "ok":
        return None, f"raised-for-valid-input:{ename}", {"error": err, "expected": common.short(exp[1], 300)}
    e = exp[1]
    if isinstance(e, RefNotMapping) and e.args and e.args[0] == sname:
        if type(ex) is ValueError:
            return "agree_not_mapping", None, {}
        return None, f"non-mapping-argument:{ename}", {"error": err}
    if isinstance(e, RefMissing) and e.cls == sname:
        if type(ex) is mexc.MissingField and ex.field_name == e.field and ex.holder_class is S:
            return "agree_missing", None, {}
        return None, f"expected-MissingField:{ename}", {"error": err, "expected_field": e.field,
                                                        "observed_field": getattr(ex, "field_name", None)}
    if isinstance(e, RefExtra) and e.cls == sname:
        if type(ex) is mexc.ExtraKeysError and set(ex.extra_keys) == e.keys and ex.target_type is S:
            try:
                str(ex)
            except Exception as e2:
                return None, f"message-of-ExtraKeysError-cannot-be-rendered:{type(e2).__name__}", {"error": f"{type(e2).__name__}: {e2}"[:200], "keys": sorted(map(repr, e.keys))}
            return "agree_extra", None, {}
        return None, f"expected-ExtraKeysError:{ename}", {"error": err, "expected_keys": sorted(map(str, e.keys)),
                                                          "observed_keys": sorted(map(str, getattr(ex, "extra_keys", []) or []))}
    if isinstance(e, RefInvalid) and e.cls == sname:
        if (type(ex) is mexc.InvalidFieldValue and ex.field_name == e.field and ex.holder_class is S
                and ex.field_value is e.value):
            return "agree_invalid", None, {}
        return None, f"expected-InvalidFieldValue:{ename}", {
            "error": err, "expected_field": e.field, "observed_field": getattr(ex, "field_name", None),
            "value_identity": getattr(ex, "field_value", None) is e.value,
            "holder_ok": getattr(ex, "holder_class", None) is S}
    # the reference failed for another reason (e.g. the dataclass constructor itself): any documented exception is fine
    if ename in DOCUMENTED or type(ex) is ValueError:
        return "agree_other_raise", None, {}
    return None, f"undocumented-exception:{ename}", {"error": err, "reference": str(e)[:200]}


def judge(rec, fam, ref, mexc, S, sname, label, d, exp, got, forbid):
    kind = label.split(":")[0]
    agree, sig, extra = classify(ref, mexc, S, sname, exp, got)
    if agree:
        rec.count(agree)
        return
    facts = {"fault": kind, "forbid_extra_keys": forbid, "input_is_mapping": hasattr(d, "get"),
             "exc": type(got[1]).__name__ if got[0] == "raise" else None,
             "explained_by": explained_by(fam, mexc, S, sname, d, got)}
    rec.violation(sig, dict({"schema": fam.to_json(), "fault": label, "input": common.short(d, 500)}, **extra), facts)


def explained_by(fam, mexc, S, sname, d, got):
    """is the observation exactly what a reference with ONE recorded finding's mechanism enabled predicts?"""
    # each recorded mechanism alone, then both together (one input can run into both: a NamedTuple with defaults whose
    # first member is a union with a None member); the combination is attributed to the rarer one
    for q in ("F02", "F24", ("F02", "F24")):
        qref = Ref(fam, quirks=q if isinstance(q, tuple) else (q,))
        try:
            e = ("ok", qref.dec(("dc", sname), d, Ctx()))
        except RefError as ex:
            e = ("raise", ex)
        agree, sig, _ = classify(qref, mexc, S, sname, e, got)
        if agree:
            return q if isinstance(q, str) else "F24"
    return None
