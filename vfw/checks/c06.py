"""C06 - generated JSON Schema accepts everything the serializer produces."""
from __future__ import annotations

import json
import random
import sys

from .. import tast
from ..family import Family
from ..gen import TypeGen
from ..values import Gen
from . import common

LEVEL = "exploration"
RULE = ("case = random family + type from the schema-supported grammar (no re.Pattern; incl. Flags, non-string-keyed "
        "mappings, unpacked tuples, Literals, unions, NamedTuple as list and as dict, TypedDict, aliases, same-named classes "
        "of two modules, generic dataclasses specialised twice) x conforming values. Each value is serialized with default "
        "options (by alias where aliases exist), passed through json.dumps/json.loads and validated with "
        "jsonschema.Draft202012Validator against build_json_schema(T) for the four (dialect, all_refs) combinations "
        "(OpenAPI references rewritten onto the document's own definitions). Structural monitors: 'required' equals the "
        "fields without default / factory; distinct classes sharing one definition show up as rejected documents (homonym / generic-twice families). distinct_nontrivial = distinct (type shape, schema variant, value repr) triples.")
RULE += " Additions: hierarchies whose root carries a Config with aliases; ancestors' schemas built first."
ASSUMPTIONS = ["format assertions are off (the validator checks structure, enum/const, types, bounds)",
               "the jsonschema package is the trusted Draft 2020-12 validator"]
BUDGET_S = {"quick": 180, "thorough": 1500}
MIN_EVENTS = {"quick": {"evaluations": 15000, "documents_valid": 12000, "required_checked": 1500},
              "thorough": {"evaluations": 500000, "documents_valid": 400000, "required_checked": 50000}}


def n_cases(tier):
    return 1200 if tier == "quick" else 120000


def worker_setup(tier, rec):
    st = common.install_monitors(rec)
    sys.setrecursionlimit(1000)
    return st


def worker_finish(tier, rec, st):
    common.finish_monitors(rec, st)


def config_fn(rng):
    cfg = {}
    if rng.random() < 0.3:
        cfg["sort_keys"] = "True"
    if rng.random() < 0.2:
        cfg["lazy_compilation"] = "True"
    if rng.random() < 0.3:
        cfg["namedtuple_as_dict"] = "True"
    if rng.random() < 0.4:
        cfg["serialize_by_alias"] = "True"
        cfg["_aliases"] = True
    return cfg


def dataclass_objects(fam, t, acc=None):
    """distinct dataclass class objects reachable from a type (by identity)."""
    acc = acc if acc is not None else {}
    for n in common.deep_nodes(fam, t):
        if n[0] in ("dc", "gdc"):
            acc[n[1]] = fam.get(n[1])
    return acc


def run_case(seed, tier, rec, st):
    from jsonschema import Draft202012Validator
    from mashumaro.codecs.basic import BasicEncoder
    from mashumaro.jsonschema import DRAFT_2020_12, OPEN_API_3_1, build_json_schema
    rng = random.Random(seed)
    fam = Family("c06", future_annotations=rng.random() < 0.1)
    other = None
    try:
        tg = TypeGen(fam, rng, dc_config_fn=config_fn, allow_pattern=False, allow_any=True, mixins=("DataClassDictMixin",))
        tg.allow_self = False
        tg.allow_stype = False       # a SerializableType without annotations has no schema
        tg.boxed_prob = 0.25         # overridden serialization is a schema feature of its own
        tg.lit_conflate = True       # Literal[0, False] / Literal[1, True]: equal for Python, distinct for JSON
        kind = rng.random()
        facts = {"kind": "grammar"}
        values = None
        ns = fam.module.__dict__
        if kind < 0.07:
            # one type customised at several levels at once, some registrations one-way: the schema must describe what
            # the serializer (which falls through to the next level for the missing direction) really writes
            fam.exec_src("def ser_int(v: datetime.date) -> int:\n    return v.toordinal()\n"
                         "def ser_str(v: datetime.date) -> str:\n    return 'D' + v.isoformat()\n"
                         "def ser_list(v: datetime.date) -> List[int]:\n    return [v.year, v.month, v.day]\n"
                         "def de_any(v):\n    return datetime.date(2000, 1, 1)\n")
            def level(name):
                x = rng.random()
                if x < 0.35:
                    return None
                if x < 0.6:
                    return "{'deserialize': de_any}"
                return "{'serialize': %s, 'deserialize': de_any}" % rng.choice(["ser_int", "ser_str", "ser_list"])
            fld, dia, cfgs = level("field"), level("dialect"), level("config")
            alias = rng.choice([None, "ann", "meta"])
            ann = "Annotated[datetime.date, Alias('AX')]" if alias == "ann" else "datetime.date"
            meta = []
            if fld:
                meta.append(f"serialization_strategy={fld}")
            if alias == "meta":
                meta.append("alias='AX'")
            src_ = ""
            if dia:
                src_ += f"class DL(Dialect):\n    serialization_strategy = {{datetime.date: {dia}}}\n"
            src_ += ("@dataclass\nclass Lv(DataClassDictMixin):\n"
                     f"    x: {ann}" + (f" = field(metadata=field_options({', '.join(meta)}))" if meta else "") + "\n"
                     f"    xs: List[datetime.date] = field(default_factory=list)\n"
                     "    class Config(BaseConfig):\n        serialize_by_alias = True\n"
                     + (f"        serialization_strategy = {{datetime.date: {cfgs}}}\n" if cfgs else "")
                     + ("        dialect = DL\n" if dia else ""))
            fam.exec_src(src_)
            facts = {"kind": "strategy-levels", "field": fld, "dialect": dia, "config": cfgs, "alias": alias}
            import datetime
            values = [fam.module.Lv(datetime.date(2020, 1, 2), [datetime.date(2021, 3, 4)]), fam.module.Lv(datetime.date(1999, 12, 31))]
            tsrc = "Lv"
            T = fam.module.Lv
            t = None
        elif kind < 0.10:
            # a NamedTuple (and a TypedDict) of a PEP 563 module, embedded in a dataclass of ANOTHER module that has
            # classes of the same names: member annotations resolve in the module that defines the tuple
            other = Family("c06fut", future_annotations=True)
            other.exec_src("class Color(enum.Enum):\n    red = 'red'\n    blue = 'blue'\n"
                           "class Point(NamedTuple):\n    x: int\n    c: Color\n    d: datetime.date = datetime.date(2000, 1, 1)\n")
            fam.module.other = other.module
            fam.exec_src("class Color(enum.Enum):\n    a = 1\n    b = 2\n"
                         "@dataclass\nclass Fig" + ("(DataClassDictMixin)" if rng.random() < 0.5 else "") + ":\n    p: other.Point\n    own: Color = Color.a\n"
                         "    ps: List[other.Point] = field(default_factory=list)\n    op: Optional[other.Point] = None\n"
                         + ("    class Config(BaseConfig):\n        namedtuple_as_dict = True\n" if rng.random() < 0.5 else ""))
            facts = {"kind": "cross-module-namedtuple-pep563"}
            import datetime
            o = other.module
            values = [fam.module.Fig(o.Point(1, o.Color.red), fam.module.Color.b, [o.Point(2, o.Color.blue, datetime.date(2020, 1, 2))], o.Point(3, o.Color.red))]
            tsrc = "Fig"
            T = fam.module.Fig
            t = None
        elif kind < 0.17:
            # same-named classes of two modules / generic specialised twice
            other = Family("c06other")
            other.exec_src("@dataclass\nclass Item:\n    sku: str\n    qty: int = 0\n")
            fam.module.other = other.module
            fam.exec_src("T = TypeVar('T')\n@dataclass\nclass Item:\n    name: str\n    when: Optional[datetime.date] = None\n"
                         "@dataclass\nclass Page(Generic[T]):\n    items: List[T]\n    first: Optional[T] = None\n"
                         "@dataclass\nclass Both:\n    a: Item\n    b: other.Item\n"
                         "@dataclass\nclass Pages:\n    p1: Page[int]\n    p2: Page[str]\n")
            which = rng.choice(["Both", "Pages"])
            facts = {"kind": "homonyms" if which == "Both" else "generic-twice"}
            m = fam.module
            import datetime
            values = [m.Both(m.Item("n", datetime.date(2020, 1, 2)), other.module.Item("s", 2))] if which == "Both" else [m.Pages(m.Page([1, 2], 3), m.Page(["a"], None))]
            tsrc = which
            T = getattr(m, which)
            t = None
        elif kind < 0.20:
            # a strategy registered FOR a named type (NewType / PEP 695 alias / Annotated alias): fields spelled with that name,
            # directly and below List / Optional / Dict, are described by the strategy's annotation; plain fields are not
            import datetime
            where = rng.choice(["config", "dialect"])
            reg = "{Cents: {'serialize': ser_cents, 'deserialize': de_cents}, UnixTime: TS(), Tag: {'serialize': ser_tag}}"
            fam.exec_src("Cents = NewType('Cents', int)\ntype UnixTime = datetime.datetime\nTag = Annotated[str, 'tag']\n"
                         "def ser_cents(v) -> str:\n    return f'{v / 100:.2f}'\ndef de_cents(s):\n    return int(float(s) * 100)\n"
                         "def ser_tag(v) -> List[str]:\n    return v.split(',')\n"
                         "class TS(SerializationStrategy):\n    def serialize(self, v) -> int:\n        return int(v.replace(tzinfo=datetime.timezone.utc).timestamp())\n"
                         "    def deserialize(self, v):\n        return datetime.datetime.fromtimestamp(v)\n"
                         + (f"class DL(Dialect):\n    serialization_strategy = {reg}\n" if where == "dialect" else ""))
            if rng.random() < 0.3:
                # ... and one registered under the ORIGIN of a generic type (the serializer tries Annotated form, type, origin)
                reg = reg[:-1] + ", collections.deque: {'serialize': ser_deque}}"
                fam.exec_src("def ser_deque(v) -> str:\n    return ','.join(map(str, v))\n")
                origin_key = True
            else:
                origin_key = False
            pool = ["    dq: Deque[int] = field(default_factory=lambda: collections.deque([1, 2]))"] if origin_key else []
            pool += ["    c: Cents = Cents(1)", "    t: UnixTime = datetime.datetime(2020, 1, 2)", "    g: Tag = 'a,b'", "    cs: List[Cents] = field(default_factory=lambda: [Cents(5)])",
                    "    ot: Optional[UnixTime] = datetime.datetime(2021, 1, 1)", "    dt: Dict[str, UnixTime] = field(default_factory=lambda: {'k': datetime.datetime(2022, 2, 2)})",
                    "    tc: Tuple[Cents, Tag] = (Cents(7), 'x')", "    plain: int = 0", "    pdt: datetime.datetime = datetime.datetime(2020, 1, 1)", "    ps: str = 's'"]
            nested = rng.random() < 0.4
            body = "\n".join(rng.sample(pool, rng.randint(3, len(pool)))) + "\n"
            cfgsrc = "    class Config(BaseConfig):\n" + (f"        serialization_strategy = {reg}\n" if where == "config" else "        dialect = DL\n")
            fam.exec_src("@dataclass\nclass Priced(DataClassDictMixin):\n" + body + cfgsrc +
                         ("@dataclass\nclass Order(DataClassDictMixin):\n    lines: List[Priced] = field(default_factory=lambda: [Priced()])\n    first: Priced = field(default_factory=Priced)\n" if nested else ""))
            facts = {"kind": "strategy-for-a-named-type", "where": where, "nested": nested, "origin_key": origin_key}
            tsrc = "Order" if nested else "Priced"
            T = getattr(fam.module, tsrc)
            values = [T()]
            t = None
        elif kind < 0.23:
            # a generic dataclass deriving from a SPECIALISED generic dataclass and re-using the TypeVar for a parameter of its
            # own: inherited members keep the parent's argument, own members take the child's
            import datetime
            same_tv = rng.random() < 0.7
            parg, pval = rng.choice([("str", "'a'"), ("datetime.date", "datetime.date(2020, 1, 2)"), ("int", "4"), ("float", "1.5")])
            carg, cval = rng.choice([("int", "3"), ("datetime.timedelta", "datetime.timedelta(seconds=5)"), ("datetime.date", "datetime.date(2021, 3, 4)"), ("str", "'z'"), ("bool", "True")])
            U = "T" if same_tv else "U"
            fam.exec_src("T = TypeVar('T')\nU = TypeVar('U')\n"
                         "@dataclass\nclass Envelope(Generic[T]):\n    tags: List[T]\n    meta: Dict[str, T] = field(default_factory=dict)\n    one: Optional[T] = None\n"
                         f"@dataclass\nclass Page(Envelope[{parg}], Generic[{U}]):\n    items: List[{U}] = field(default_factory=list)\n    first: Optional[{U}] = None\n"
                         f"@dataclass\nclass Book(DataClassDictMixin):\n    p: Page[{carg}]\n    ps: List[Page[{carg}]] = field(default_factory=list)\n"
                         f"@dataclass\nclass Leafy(Page[{carg}]):\n    extra: int = 0\n"
                         # a generic dataclass holding ANOTHER specialisation of a generic that shares the TypeVar
                         f"@dataclass\nclass Outer(Generic[T]):\n    inner: Envelope[{parg}]\n    v: T\n    vs: List[T] = field(default_factory=list)\n"
                         f"@dataclass\nclass Top(DataClassDictMixin):\n    o: Outer[{carg}]\n"
                         # generic TypedDict / NamedTuple: optional keys stay optional, type variables inside member types are resolved
                         "class TDg(TypedDict, Generic[T]):\n    item: T\n    items: NotRequired[List[T]]\n    note: NotRequired[str]\n"
                         "class NTg(NamedTuple, Generic[T]):\n    x: T\n    xs: List[T]\n    o: Optional[T] = None\n"
                         f"@dataclass\nclass Holder2(DataClassDictMixin):\n    t: TDg[{carg}]\n    n: NTg[{carg}]\n    ts: List[TDg[{parg}]] = field(default_factory=list)\n")
            m = fam.module
            pv, cv = eval(pval, m.__dict__), eval(cval, m.__dict__)
            which = rng.choice(["Page", "Book", "Leafy", "Outer", "Top", "Holder2"])
            facts = {"kind": "generic-inheritance", "same_typevar": same_tv, "parent_arg": parg, "child_arg": carg, "root": which}
            page = lambda cls=None: (cls or m.Page)([pv], {"k": pv}, pv, [cv, cv], cv)
            if which == "Page":
                tsrc = f"Page[{carg}]"
                T = eval(tsrc, m.__dict__)
                values = [page()]
            elif which == "Book":
                tsrc, T, values = "Book", m.Book, [m.Book(page(), [page()])]
            elif which == "Holder2":
                tsrc, T = "Holder2", m.Holder2
                values = [m.Holder2({"item": cv}, m.NTg(cv, [cv]), [{"item": pv, "note": "n"}]), m.Holder2({"item": cv, "items": [cv, cv]}, m.NTg(cv, [], cv), [{"item": pv, "items": []}])]
            elif which in ("Outer", "Top"):
                outer = m.Outer(m.Envelope([pv], {"k": pv}, pv), cv, [cv])
                if which == "Outer":
                    tsrc = f"Outer[{carg}]"
                    T, values = eval(tsrc, m.__dict__), [outer]
                else:
                    tsrc, T, values = "Top", m.Top, [m.Top(outer)]
            else:
                tsrc, T, values = "Leafy", m.Leafy, [page(m.Leafy)]
            t = None
        elif kind < 0.26:
            # Config.json_schema["properties"] is keyed by FIELD NAME, also for members written under an alias (whatever the
            # source of the alias): the hand-written description replaces the generated one
            fam.exec_src("class Perm(enum.Flag):\n    R = 1\n    W = 2\n    X = 4\nclass Blob:\n    pass\ndef ser_blob(v):\n    return 'blob'\ndef de_blob(v):\n    return Blob()\n")
            how = {n: rng.choice(["meta", "ann", "cfg", None]) for n in ("p", "codes", "b")}
            by_alias = True       # (as everywhere in this check: property names are the aliases, so documents are written by alias)
            def fld(n, ann, default, extra_meta=""):
                a = how[n]
                if a == "ann":
                    ann = f"Annotated[{ann}, Alias('{n}-A')]"
                meta = ", ".join(x for x in (f"alias='{n}-A'" if a == "meta" else "", extra_meta) if x)
                args = ", ".join(x for x in (default, f"metadata=field_options({meta})" if meta else "") if x)
                return f"    {n}: {ann}" + (f" = field({args})" if args else "") + "\n"
            cfg_aliases = {n: f"{n}-A" for n, a in how.items() if a == "cfg"}
            over = {"p": {"type": "integer", "minimum": 0, "maximum": 7}, "b": {"type": "string"}, "codes": {"type": "object", "additionalProperties": {"type": "string"}}}
            hidden = rng.random() < 0.5
            # (a member that is never written - serialize="omit" - may be described, but cannot be demanded of the documents)
            fam.exec_src("@dataclass\nclass Acl(DataClassDictMixin):\n" + fld("p", "Perm", "") +
                         ("    hidden: str = field(metadata=field_options(serialize='omit'))\n" if hidden else "") + fld("codes", "Dict[int, str]", "default_factory=dict") +
                         fld("b", "Blob", "default_factory=Blob", "serialize=ser_blob, deserialize=de_blob") + "    q: Perm = Perm.R\n"
                         "    class Config(BaseConfig):\n" + f"        serialize_by_alias = {by_alias}\n" + (f"        aliases = {cfg_aliases!r}\n" if cfg_aliases else "") +
                         f"        json_schema = {{'properties': {over!r}}}\n"
                         "@dataclass\nclass Acls(DataClassDictMixin):\n    items: List[Acl] = field(default_factory=list)\n")
            m = fam.module
            facts = {"kind": "override-under-alias", "alias_sources": repr(sorted(how.items())), "by_alias": by_alias, "omitted_member": hidden}
            nested = rng.random() < 0.4
            hid = {"hidden": "h"} if hidden else {}
            a1, a2 = m.Acl(p=m.Perm.R | m.Perm.X, codes={404: "nf"}, **hid), m.Acl(p=m.Perm.W, codes={}, **hid)
            tsrc, T, values = ("Acls", m.Acls, [m.Acls([a1, a2])]) if nested else ("Acl", m.Acl, [a1, a2])
            t = None
        else:
            t = tg.dataclass(rng.randint(0, 2)) if rng.random() < 0.5 else tg.type(rng.randint(0, 2))
            tsrc = tast.render(t)
            T = common.eval_type(fam, t)
            kinds = {n[0] for n in common.deep_nodes(fam, t)}
            facts["type_kinds"] = sorted(kinds)
        try:
            enc = BasicEncoder(T)
        except Exception as e:
            rec.count("encoder_build_failed")
            return
        if t is not None and rng.random() < 0.5:
            # history: the schemas of the ANCESTORS were built first (a subclass is described by its own field table)
            for A in common.ancestor_classes(fam, t):
                try:
                    build_json_schema(A, all_refs=rng.random() < 0.5)
                    rec.count("history_ancestor_schema_built_first")
                except Exception:
                    pass
        variants = [(DRAFT_2020_12, False), (DRAFT_2020_12, True), (OPEN_API_3_1, True), (OPEN_API_3_1, False)]
        validators = []
        for dialect, all_refs in variants:
            vname = f"{type(dialect).__name__}:all_refs={all_refs}"
            try:
                s = build_json_schema(T, dialect=dialect, all_refs=all_refs)
                sd = s.to_dict()
            except RecursionError:
                rec.count("schema_build_recursion")   # C20's subject
                continue
            except Exception as e:
                rec.count(f"schema_build_failed:{type(e).__name__}")   # totality is C20's subject
                continue
            if all_refs:
                # history: the same model built again in this process describes the same documents
                try:
                    again = build_json_schema(T, dialect=dialect, all_refs=all_refs).to_dict()
                except Exception as e:
                    again = f"{type(e).__name__}: {e}"[:200]
                rec.count("schemas_rebuilt")
                if again != sd:
                    rec.violation("schema-differs-between-repeated-builds", {"type": tsrc, "variant": vname, "first": common.short(sd, 600),
                                  "second": common.short(again, 600), "family": fam.to_json()}, dict(facts, all_refs=all_refs))
                    continue
            sd2 = json.loads(json.dumps(sd).replace("#/components/schemas/", "#/$defs/")) if dialect is OPEN_API_3_1 else sd
            if dialect is OPEN_API_3_1 and "components" in sd2:
                pass
            try:
                Draft202012Validator.check_schema(sd2)
            except Exception:
                rec.count("metaschema_invalid")       # C20's subject
                continue
            validators.append((vname, Draft202012Validator(sd2), sd, all_refs))
            # ---- structural monitors
            if t is not None and t[0] == "dc":
                rec.count("required_checked")
                name = t[1]
                exp_required = []
                ref = common.Ref(fam)
                opts = ref.dc_opts(name, __import__("vfw.ref", fromlist=["Ctx"]).Ctx())
                for f in fam.dc_fields(name):
                    if f.get("init") is False:
                        continue
                    if not f.get("dmode"):
                        a = ref.field_alias(name, f, opts)
                        exp_required.append(a if a is not None else f["n"])
                top = sd
                if all_refs:
                    top = (sd.get("$defs") or sd.get("components", {}).get("schemas") or {}).get(name, {})
                got_required = top.get("required", []) if isinstance(top, dict) else None
                if got_required is not None and sorted(got_required) != sorted(exp_required):
                    rec.violation("required-differs-from-fields-without-default", {"type": tsrc, "variant": vname, "observed": got_required,
                                  "expected": exp_required, "family": fam.to_json()}, facts)
        if not validators:
            rec.count("no_schema_variant_built")
            return
        vg = Gen(fam, rng) if t is not None else None
        nvals = 4 if tier == "quick" else 8
        for j in range(nvals if values is None else len(values)):
            v = values[j] if values is not None else vg.value(t, 3)
            try:
                doc = json.loads(json.dumps(enc.encode(v)))
            except Exception:
                rec.count("encode_or_json_failed")
                continue
            for vname, validator, sd, all_refs in validators:
                rec.evaluation()
                try:
                    errs = list(validator.iter_errors(doc))
                except Exception as ex:
                    # e.g. a $ref that names no definition: the schema cannot judge (so cannot accept) the document
                    rec.violation(f"schema-unusable:{type(ex).__name__}", {"type": tsrc, "variant": vname, "document": common.short(doc, 300),
                                  "error": str(ex)[:300], "schema": common.short(sd, 800), "family": fam.to_json()}, dict(facts, all_refs=all_refs))
                    continue
                if not errs:
                    rec.count("documents_valid")
                    rec.nontrivial((tsrc if t is None else tast.shape_hash(t), vname, repr(v)[:160]))
                    continue
                from jsonschema.exceptions import best_match
                e = best_match(errs) or errs[0]       # descends into anyOf/oneOf branches to the deepest relevant error
                path = [str(x) for x in e.absolute_schema_path]
                f2 = dict(facts, all_refs=all_refs, keyword=str(e.validator), schema_path_tail=path[-3:], instance=common.short(e.instance, 80),
                          failing_schema=common.short(e.schema, 200), **mechanism_facts(fam, t, e, path))
                KW = ("properties", "additionalProperties", "propertyNames", "items", "prefixItems", "anyOf", "$defs", "contains")
                parents = [p for p in path[:-1] if p in KW]
                rec.violation(f"document-rejected:{e.validator}:under-{parents[-1] if parents else 'root'}",
                              {"type": tsrc, "variant": vname, "document": common.short(doc, 400), "message": e.message[:300],
                               "schema": common.short(sd, 800), "family": fam.to_json()}, f2)
        rec.sample({"type": tsrc, "variants": [v[0] for v in validators], "facts": {k: v for k, v in facts.items() if k != "type_kinds"}})
    finally:
        fam.dispose()
        if other:
            other.dispose()


def mechanism_facts(fam, t, err, path):
    """facts used by the known-finding predicates (F09-F12)."""
    out = {}
    kinds = set()
    flag_enums = False
    nonstr_keys = False
    fixed_unpack = False
    if t is not None:
        for n in common.deep_nodes(fam, t):
            kinds.add(n[0])
            if n[0] == "enum" and fam.defs[n[1]]["base"] in ("Flag", "IntFlag"):
                flag_enums = True
            if n[0] in ("map", "counter", "chainmap") and tast.strip(n[2])[0] not in ("str", "any", "lit") and not (
                    tast.strip(n[2])[0] == "enum" and fam.defs[tast.strip(n[2])[1]]["base"] in ("StrEnum",)):
                nonstr_keys = True
            if n[0] == "utuple" and n[3][0] == "tuple":
                fixed_unpack = True
    out["has_flag_enum"] = flag_enums
    out["has_non_string_map_key_type"] = nonstr_keys
    out["has_fixed_size_unpack"] = fixed_unpack
    leaves = []

    def collect(e):
        if e.context:
            for c in e.context:
                collect(c)
        else:
            leaves.append(e)
    collect(err)
    out["failed_in_propertyNames"] = any("propertyNames" in [str(x) for x in l.absolute_schema_path] for l in leaves)
    enum_leaves = [l for l in leaves if str(l.validator) in ("enum", "const")]
    out["failed_on_enum_keyword"] = bool(enum_leaves)
    out["failed_on_items_count"] = any(str(l.validator) in ("maxItems", "minItems") for l in leaves)
    out["instance_is_int"] = any(isinstance(l.instance, int) and not isinstance(l.instance, bool) for l in enum_leaves)
    # F36: properties rejected by additionalProperties that are exactly fields declared init=False
    noninit = set()
    ref = common.Ref(fam)
    from ..ref import Ctx
    for name, d in fam.defs.items():
        if d.get("k") == "dc":
            try:
                opts = ref.dc_opts(name, Ctx())
            except Exception:
                opts = None
            for f in fam.dc_fields(name):
                if f.get("init") is False:
                    noninit.add(f["n"])
                    a = ref.field_alias(name, f, opts) if opts is not None else None
                    if a is not None:
                        noninit.add(a)
    # F38: a field carrying a NamedTuple engine option (serialize='as_dict' | 'as_list') whose NamedTuple sits inside a
    # list / dict: the serializer drops the option for collection elements, the schema builder keeps it
    engine_keys = set()
    for name, d in fam.defs.items():
        if d.get("k") != "dc":
            continue
        try:
            opts = ref.dc_opts(name, Ctx())
        except Exception:
            opts = None
        for f in d["fields"]:
            if f.get("raw") or (f.get("meta") or {}).get("serialize") not in ("'as_dict'", "'as_list'"):
                continue
            nested = False
            for n in tast.walk(f["t"]):
                if n[0] in ("seq", "map", "counter", "chainmap") and any(m[0] == "nt" for m in tast.walk(n)):
                    nested = True
            if nested:
                engine_keys.add(f["n"])
                a = ref.field_alias(name, f, opts) if opts is not None else None
                if a is not None:
                    engine_keys.add(a)
    out["under_field_with_namedtuple_engine_on_collection"] = any(
        a == "properties" and b in engine_keys for a, b in zip(path, path[1:]))
    extras = []
    for l in leaves:
        if str(l.validator) == "additionalProperties" and isinstance(l.instance, dict) and isinstance(l.schema, dict):
            extras.append(set(l.instance) - set(l.schema.get("properties", {})))
    out["rejected_extras_are_all_init_false_fields"] = bool(extras) and all(x and x <= noninit for x in extras) and all(
        str(l.validator) == "additionalProperties" for l in leaves)
    return out
