"""C07 - absent keys take defaults, present keys always win."""
from __future__ import annotations

import collections
import copy
import dataclasses
import datetime
import decimal
import itertools
import random

from ..family import Family
from . import common

LEVEL = "exploration"
EXHAUSTIVE = False
RULE = ("case = random field layout (0-2 levels of inheritance or a diamond B <- C, E <- F(C, E) with a root field re-declared by either sibling, overridden defaults, required/defaulted/factory/"
        "kw_only/KW_ONLY/init=False/InitVar/ClassVar members, converted field types, aliases with and without "
        "allow_deserialization_not_by_alias, slots/frozen, mixin or plain-through-codec or plain as the field of a later holder after an ancestor was compiled as a nested type); for every layout ALL "
        "subsets of its init keys (<= 2^8) are fed to from_dict, poison values planted under non-init names. Oracle: "
        "field == converted input iff key present (explicit None included) else default / fresh factory result not "
        "shared between two results; MissingField names the first missing field in declaration order. "
        "distinct_nontrivial = distinct (layout signature, key subset) pairs.")
RULE += " Additions: undecorated base class annotating member names in another order; bare re-annotation of inherited members; TypedDict inheritance with mixed totality (also under PEP 563)."
ASSUMPTIONS = ["key subsets are exhaustive per layout; layouts and the wire value chosen for a present key are random",
               "field types are drawn from a 10-entry typed pool with known conversions"]
BUDGET_S = {"quick": 120, "thorough": 900}
MIN_EVENTS = {"quick": {"evaluations": 20000, "agree_instance": 5000, "agree_missing": 2000, "factory_pairs_checked": 500, "alignment_agree": 100},
              "thorough": {"evaluations": 600000, "agree_instance": 150000, "agree_missing": 60000, "factory_pairs_checked": 15000}}

D = datetime.date
TYPES = {
    # key: (annotation source, [(wire, python value)], [default sources -> python value])
    "int": ("int", [(1001, 1001), (0, 0), ("17", 17)], lambda n: (str(n), n)),
    "str": ("str", [("x", "x"), ("", "")], lambda n: (repr(f"d{n}"), f"d{n}")),
    "date": ("datetime.date", [("2020-01-02", D(2020, 1, 2)), ("1999-12-31", D(1999, 12, 31))],
             lambda n: (f"datetime.date(2001, 1, {n % 28 + 1})", D(2001, 1, n % 28 + 1))),
    "dec": ("decimal.Decimal", [("1.5", decimal.Decimal("1.5")), ("-2", decimal.Decimal("-2"))],
            lambda n: (f"decimal.Decimal('{n}.5')", decimal.Decimal(f"{n}.5"))),
    "oint": ("Optional[int]", [(5, 5), (None, None)], lambda n: (str(n), n) if n % 3 else ("None", None)),
    "odate": ("Optional[datetime.date]", [("2020-01-02", D(2020, 1, 2)), (None, None)],
              lambda n: (f"datetime.date(2001, 1, {n % 28 + 1})", D(2001, 1, n % 28 + 1)) if n % 3 else ("None", None)),
    # nullable fields whose default is falsy but not None: an explicit null is still a present key
    "oint0": ("Optional[int]", [(5, 5), (None, None), (None, None)], lambda n: ("0", 0)),
    "ostr0": ("Optional[str]", [("x", "x"), (None, None), (None, None)], lambda n: ("''", "")),
    "obool0": ("Optional[bool]", [(True, True), (None, None), (None, None)], lambda n: ("False", False)),
    "otd0": ("Optional[datetime.timedelta]", [(1.5, datetime.timedelta(seconds=1.5)), (None, None), (None, None)],
             lambda n: ("datetime.timedelta(0)", datetime.timedelta(0))),
    # TypedDict with optional keys: keys absent from the input stay absent, also when the input mapping answers
    # subscription of absent keys itself (defaultdict)
    "tdopt": ("TDopt", [({"p": 1}, {"p": 1}), (collections.defaultdict(lambda: "FALLBACK", {"q": "s"}), {"q": "s"}), ({}, {}),
                        (collections.defaultdict(lambda: 7, {}), {})], lambda n: ("{'p': %d}" % n, {"p": n})),
    # TypedDict inheritance with mixed totality (also under PEP 563): a key keeps the requiredness of the class that DECLARES it
    "tdinh": ("TDinh", [({"q": "s"}, {"q": "s"}), ({"p": 1, "q": "t"}, {"p": 1, "q": "t"}), ({"q": "", "r": 5}, {"q": "", "r": 5})],
              lambda n: ("{'q': 'd%d'}" % n, {"q": "d%d" % n})),
    "any": ("Any", [(None, None), ([1], [1])], lambda n: (repr(f"a{n}"), f"a{n}") if n % 2 else ("None", None)),
    "uoint": ("Union[int, str, None]", [(3, 3), ("s", "s"), (None, None)], lambda n: (str(n), n)),
}
FACTORY_TYPES = {
    "lint": ("List[int]", [([7, 8], [7, 8]), ([], [])], lambda n: (f"[{n}]", [n])),
    "ldate": ("List[datetime.date]", [(["2020-01-02"], [D(2020, 1, 2)])], lambda n: (f"[datetime.date(2001, 1, {n % 28 + 1})]", [D(2001, 1, n % 28 + 1)])),
    "dct": ("Dict[str, int]", [({"k": 1}, {"k": 1})], lambda n: (f"{{'d': {n}}}", {"d": n})),
}


def n_cases(tier):
    return 6000 if tier == "quick" else 400000


def worker_setup(tier, rec):
    return common.install_monitors(rec)


def worker_finish(tier, rec, st):
    common.finish_monitors(rec, st)


CONV_SRC = {"int": "int", "str": "str", "date": "datetime.date.fromisoformat", "dec": "decimal.Decimal"}


def gen_level(rng, prefix, k, allow_required, counter):
    """one class body: list of field dicts."""
    out = []
    seen_default = False
    kw_mode = False
    for i in range(k):
        name = f"{prefix}{i}"
        role = rng.choice(["req", "req", "def", "def", "fac", "kwreq", "kwdef", "noinit", "initvar", "classvar", "KW"])
        if role == "KW":
            if not kw_mode:
                out.append({"role": "KW"})
                kw_mode = True
            continue
        if role == "req" and (seen_default or not allow_required) and not kw_mode:
            role = "def"
        counter[0] += 1
        n = counter[0]
        f = {"name": name, "role": role, "n": n}
        if role == "fac":
            f["tk"] = rng.choice(list(FACTORY_TYPES))
        elif role in ("noinit", "initvar", "classvar"):
            f["tk"] = "int"
        else:
            f["tk"] = rng.choice(list(TYPES))
        if role in ("def", "fac"):
            seen_default = True
        if role in ("req", "def", "fac", "kwreq", "kwdef") and rng.random() < 0.25:
            f["alias"] = f"A_{name}"
            if f["tk"] in CONV_SRC and rng.random() < 0.35:
                # the alias comes from Config.aliases; the member's field_options carry something else (alias=None there)
                f["alias_via_cfg"] = True
        out.append(f)
    return out


def render_level(fields):
    lines = []
    for f in fields:
        role = f["role"]
        if role == "KW":
            lines.append("    _: KW_ONLY")
            continue
        table = FACTORY_TYPES if role == "fac" else TYPES
        ann, wires, dflt = table[f["tk"]]
        dsrc, dval = dflt(f["n"])
        f["default"] = dval
        meta = f", metadata=field_options(alias={f['alias']!r})" if f.get("alias") else ""
        if f.get("alias_via_cfg"):
            meta = f", metadata=field_options(deserialize={CONV_SRC[f['tk']]})"
        name = f["name"]
        if f.get("bare"):
            # re-annotated without a value: dataclasses make a fresh field whose default is the class attribute found
            # along the MRO (the inherited default), without the inherited metadata
            lines.append(f"    {name}: {ann}")
        elif role == "req":
            lines.append(f"    {name}: {ann}" + (f" = field({meta[2:]})" if meta else ""))
        elif role == "def":
            lines.append(f"    {name}: {ann} = " + (f"field(default={dsrc}{meta})" if meta else dsrc))
        elif role == "fac":
            lines.append(f"    {name}: {ann} = field(default_factory=lambda: {dsrc}{meta})")
        elif role == "kwreq":
            lines.append(f"    {name}: {ann} = field(kw_only=True{meta})")
        elif role == "kwdef":
            lines.append(f"    {name}: {ann} = field(default={dsrc}, kw_only=True{meta})")
        elif role == "noinit":
            lines.append(f"    {name}: int = field(default={dsrc}, init=False)")
        elif role == "initvar":
            lines.append(f"    {name}: InitVar[int] = {dsrc}")
        elif role == "classvar":
            lines.append(f"    {name}: ClassVar[int] = {dsrc}")
    return lines


def alignment_case(rng, tier, rec):
    """which constructor parameter a value reaches: an undecorated base annotating the member names in ANOTHER order (typing lists
    its annotations first, dataclasses ignore it) together with a subclass that re-annotates inherited members without a value
    (they keep their inherited position among the parameters).  Every member has its own type and wire value, so a value that
    reaches the wrong parameter - or one passed twice - shows."""
    from mashumaro.codecs.basic import BasicDecoder
    fam = Family("c07")
    try:
        kinds = [("int", 7, 7), ("datetime.date", "2020-01-02", D(2020, 1, 2)), ("str", "s", "s"), ("float", 1.5, 1.5), ("bool", True, True), ("uuid.UUID", "00000000-0000-0000-0000-000000000001", __import__("uuid").UUID(int=1))]
        rng.shuffle(kinds)
        nb, nc = rng.randint(2, 3), rng.randint(1, 2)
        bnames = [f"b{i}" for i in range(nb)]
        cnames = [f"c{i}" for i in range(nc)]
        ktype = dict(zip(bnames + cnames, kinds))
        znames = bnames + cnames
        rng.shuffle(znames)
        znames = znames[:rng.randint(2, len(znames))]
        bare = rng.sample(bnames, rng.randint(1, len(bnames)))
        zwhere = rng.choice(["B", "C"])
        mixin = rng.random() < 0.7
        lazy = rng.random() < 0.15
        bases_b = ", ".join(x for x in ("Z" if zwhere == "B" else "", "DataClassDictMixin" if mixin else "") if x)
        src = "class Z:\n" + "".join(f"    {n}: Any\n" for n in znames)
        src += "@dataclass\nclass B" + (f"({bases_b})" if bases_b else "") + ":\n" + "".join(f"    {n}: {ktype[n][0]}\n" for n in bnames)
        src += "@dataclass\nclass C(" + ("B, Z" if zwhere == "C" else "B") + "):\n"
        body = [f"    {n}: {ktype[n][0]}\n" for n in cnames] + [f"    {n}: {ktype[n][0]}\n" for n in bare]
        rng.shuffle(body)
        src += "".join(body) + ("    class Config(BaseConfig):\n        lazy_compilation = True\n" if lazy else "")
        facts = {"scenario": "alignment", "undecorated_base": True, "bare_reannotation": True, "z_on": zwhere}
        try:
            fam.exec_src(src)
        except TypeError:
            rec.count("layout_rejected_by_dataclasses")
            return
        m = fam.module
        doc = {n: ktype[n][1] for n in bnames + cnames}
        want = {n: ktype[n][2] for n in bnames + cnames}
        routes = [("codec", lambda: BasicDecoder(m.C).decode(dict(doc)))] + ([("mixin", lambda: m.C.from_dict(dict(doc)))] if mixin else [])
        for name, fn in routes:
            rec.evaluation()
            try:
                got = fn()
            except Exception as e:
                rec.violation(f"exception:{type(e).__name__}", {"source": src, "input": common.short(doc), "error": f"{type(e).__name__}: {e}"[:300], "route": name}, facts)
                continue
            bad = {n: repr(getattr(got, n, None))[:40] for n in want if getattr(got, n, None) != want[n] or type(getattr(got, n, None)) is not type(want[n])}
            if bad:
                rec.violation("field-differs-from-converted-input", {"source": src, "input": common.short(doc), "wrong_members": bad, "route": name}, facts)
            else:
                rec.count("agree_instance")
                rec.count("alignment_agree")
                rec.nontrivial(("alignment", tuple(znames), tuple(bare), zwhere, name, lazy))
    finally:
        fam.dispose()


def run_case(seed, tier, rec, st):
    from mashumaro.codecs.basic import BasicDecoder
    from mashumaro.exceptions import MissingField
    rng = random.Random(seed)
    if rng.random() < 0.03:
        return alignment_case(rng, tier, rec)
    fam = Family("c07", future_annotations=rng.random() < 0.1)
    try:
        counter = [rng.randint(1, 50)]
        levels = rng.choice([1, 2, 2, 3])
        # diamond: B root, C(B) and E(B) siblings, leaf F(C, E); fields are collected over the reversed MRO
        # (B, E, C, F), so a field re-declared by both siblings is C's
        diamond = levels == 3 and rng.random() < 0.5
        nbodies = 4 if diamond else levels
        mixin = rng.random() < 0.7
        allow = rng.random() < 0.4
        lazy = rng.random() < 0.15
        dc_args = rng.choice(["", "", "", "(slots=True)", "(frozen=True)"])
        if diamond and "slots" in dc_args:
            dc_args = ""
        bodies = []
        has_default = False
        for lv in range(nbodies):
            k = rng.randint(0 if lv < nbodies - 1 else 1, 3 if nbodies > 1 else 5)
            if diamond:
                k = min(k, 2)
            fs = gen_level(rng, "bcdf"[lv], k, not has_default, counter)
            if any(f["role"] in ("def", "fac") for f in fs) and not any(f["role"] == "KW" for f in fs):
                has_default = True
            bodies.append(fs)
        # cap at 8 init fields (exhaustive subsets)
        total_init = sum(1 for b in bodies for f in b if f["role"] in ("req", "def", "fac", "kwreq", "kwdef"))
        if total_init > 8 or total_init == 0:
            rec.count("layout_skipped")
            return
        # re-declare an inherited field in a later class with another default (a root member that is required or
        # init=False may become an ordinary defaulted field)
        overrides = []
        if nbodies > 1:
            roles = ("def", "noinit", "req") if diamond else ("def", "def", "req")
            cands = [f for f in bodies[0] if f["role"] in roles]
            if cands and rng.random() < (0.8 if diamond else 0.5):
                base_f = rng.choice(cands)
                where = [lv for lv in (1, 2, 3) if rng.random() < (0.6 if lv < 3 else 0.2)] if diamond else [rng.randint(1, levels - 1)]
                for lv in where:
                    if not diamond and base_f["role"] in ("def", "req") and rng.random() < 0.35:
                        o = dict(base_f, override_level=lv, bare=True)
                        if not o.get("alias_via_cfg"):
                            o.pop("alias", None)          # (an alias from Config.aliases is the class's, it stays)
                        overrides.append(o)
                        continue
                    counter[0] += 1
                    overrides.append(dict(base_f, n=counter[0], override_level=lv, role="def"))
        cfg = []
        if allow:
            cfg.append("allow_deserialization_not_by_alias = True")
        if lazy:
            cfg.append("lazy_compilation = True")
        cfg_aliases = {f["name"]: f["alias"] for b in bodies for f in b if f.get("alias_via_cfg")}
        cfg_aliases.update({o["name"]: o["alias"] for o in overrides if o.get("alias_via_cfg") and o.get("alias")})
        if cfg_aliases:
            cfg.append(f"aliases = {cfg_aliases!r}")
        plain_chain = nbodies > 1 and not diamond and rng.random() < 0.2
        src = []
        names = ["B", "C", "E", "F"][:nbodies]
        class_fields = {}
        # an UNDECORATED base class that merely annotates some of the member names, in another order: typing lists its
        # annotations first, dataclasses ignore it - the field table (order of constructor parameters) is the dataclasses'
        zbase = None
        # (more often next to a bare re-annotation: the two together decide which values may be passed positionally)
        if not diamond and "slots" not in dc_args and rng.random() < (0.6 if any(o.get("bare") for o in overrides) else 0.2):
            znames = [f["name"] for b in bodies for f in b if f["role"] in ("req", "def", "fac", "kwreq", "kwdef")]
            rng.shuffle(znames)
            znames = znames[:rng.randint(1, max(1, len(znames)))]
            if znames:
                zbase = rng.randrange(nbodies)
                src.append("class Z:")
                src += [f"    {n}: Any" for n in znames]
        for lv, fs in enumerate(bodies):
            if lv == 0:
                base = "DataClassDictMixin" if mixin else ""
                if zbase == 0:
                    base = "Z, " + base if base else "Z"
            elif diamond:
                base = "B" if lv < 3 else "C, E"
            else:
                base = names[lv - 1]
                if zbase == lv:
                    base = f"{base}, Z"        # (Z first would legitimately re-type the inherited members as Any)
            src.append(f"@dataclass{dc_args}")
            src.append(f"class {names[lv]}" + (f"({base})" if base else "") + ":")
            body = render_level(fs)
            own = [f for f in fs if f["role"] != "KW"]
            for o in overrides:
                if o["override_level"] == lv:
                    body += render_level([o])
                    own.append(o)
            class_fields[names[lv]] = own
            if plain_chain and lv == 0:
                # PLAIN Config classes deriving from each other: the root's says the opposite of what the leaf's says
                body.append("    class Config:")
                body += [f"        allow_deserialization_not_by_alias = {not allow}", f"        aliases = {dict((n_, 'ROOT_' + n_) for n_ in cfg_aliases)!r}", "        forbid_extra_keys = False"]
            if plain_chain and lv == nbodies - 1:
                body.append("    class Config(B.Config):")
                body += [f"        allow_deserialization_not_by_alias = {allow}", f"        aliases = {cfg_aliases!r}"] + (["        lazy_compilation = True"] if lazy else [])
            elif cfg and lv == nbodies - 1:
                body.append("    class Config(BaseConfig):")
                body += [f"        {c}" for c in cfg]
            src += body or ["    pass"]
        if any(f.get("tk") == "tdinh" for b in bodies for f in b) or any(o.get("tk") == "tdinh" for o in overrides):
            src.insert(0, "class TDbase(TypedDict, total=False):\n    p: int\n    r: int\nclass TDinh(TDbase):\n    q: str")
        if any(f.get("tk") == "tdopt" for b in bodies for f in b) or any(o.get("tk") == "tdopt" for o in overrides):
            src.insert(0, "class TDopt(TypedDict, total=False):\n    p: int\n    q: str")
        try:
            fam.exec_src("\n".join(src) + "\n")
        except Exception as e:
            # the layout itself is not a valid dataclass (python's own rules) -> not a case
            if type(e).__name__ in ("TypeError", "ValueError") and "mashumaro" not in repr(e.__traceback__.tb_next and e.__traceback__.tb_frame.f_code.co_filename):
                rec.count("layout_rejected_by_dataclasses")
                return
            raise
        cls = fam.get(names[-1])
        dec = cls.from_dict if mixin else BasicDecoder(cls).decode
        via_holder = (not mixin) and nbodies >= 2 and rng.random() < 0.5
        if via_holder:
            # history: an ancestor was compiled as a nested field type first, the class itself is used later in another
            # holder; it is still the class's own field table that is read
            from mashumaro.exceptions import InvalidFieldValue
            anc = rng.choice(names[:-1])
            fam.exec_src(f"@dataclass\nclass HP(DataClassDictMixin):\n    p: Optional[{anc}] = None\n    ps: List[{anc}] = field(default_factory=list)\n")
            try:
                fam.module.HP.from_dict({"p": {}, "ps": [{}]})
            except Exception:
                pass
            fam.exec_src(f"@dataclass\nclass HL(DataClassDictMixin):\n    q: {names[-1]}\n")
            HL = fam.module.HL

            def dec(d, HL=HL):
                try:
                    return HL.from_dict({"q": d}).q
                except InvalidFieldValue as e:
                    if isinstance(e.__context__, MissingField):
                        raise e.__context__
                    raise
        # effective field table, the stdlib rule: every dataclass of the reversed MRO contributes its COMPLETE field
        # table (inherited members included), then the class's own members replace in place.  In a diamond
        # F(C, E) a root field re-declared by E only is therefore the root's again (C's inherited view comes last).
        def effective(c):
            out = {}
            for b in c.__mro__[-1:0:-1]:
                if fam.module.__dict__.get(b.__name__) is b and b.__name__ in class_fields:
                    out.update(effective(b))
            for f in class_fields[c.__name__]:
                out[f["name"]] = f
            return out
        spec = effective(cls)
        order = list(spec)
        # the model must agree with dataclasses itself before it judges mashumaro
        std = {f.name: f for f in dataclasses.fields(cls)}
        mine = [n for n in order if spec[n]["role"] not in ("initvar", "classvar")]
        if mine != list(std) or any((std[n].default is dataclasses.MISSING and std[n].default_factory is dataclasses.MISSING)
                                     != (spec[n]["role"] in ("req", "kwreq")) for n in mine):
            rec.count("harness_model_disagrees_with_dataclasses")
            return
        init_fields = [n for n in order if spec[n]["role"] in ("req", "def", "fac", "kwreq", "kwdef")]
        nonit = [n for n in order if spec[n]["role"] in ("noinit", "initvar", "classvar")]
        layout_sig = tuple((spec[n]["role"], spec[n]["tk"], bool(spec[n].get("alias"))) for n in order) + (allow, mixin, dc_args, diamond, via_holder)
        sampled = False
        for mask in itertools.product([False, True], repeat=len(init_fields)):
            rec.evaluation()
            d = {}
            exp = {}
            miss = None
            for present, name in zip(mask, init_fields):
                f = spec[name]
                table = FACTORY_TYPES if f["role"] == "fac" else TYPES
                wires = table[f["tk"]][1]
                alias = f.get("alias")
                if present:
                    wire, val = rng.choice(wires)
                    if isinstance(wire, dict):
                        wire = copy.copy(wire)       # a mutated defaultdict must not leak into later inputs
                    if alias and allow:
                        how = rng.choice(["alias", "name", "both"])
                        if how in ("alias", "both"):
                            d[alias] = wire
                        if how == "name":
                            d[name] = wire
                        if how == "both":
                            d[name] = "POISON-name-when-alias-present"
                    else:
                        d[alias or name] = wire
                    exp[name] = val
                else:
                    if alias and not allow and rng.random() < 0.3:
                        d[name] = "POISON-name-not-accepted"   # only the alias is accepted
                    if f["role"] in ("req", "kwreq"):
                        if miss is None:
                            miss = name
                    else:
                        exp[name] = f["default"]
            for name in nonit:
                if rng.random() < 0.6:
                    d[name] = "POISON-non-init"
                if spec[name]["role"] == "noinit":
                    # not a constructor parameter: dataclasses leaves the class attribute in place (in a diamond the
                    # attribute found along the MRO, which need not be the default of the winning Field)
                    exp[name] = getattr(cls, name) if diamond else spec[name]["default"]
            det = lambda **kw: dict({"source": "\n".join(src), "input": common.short(d, 400), "present": [n for p, n in zip(mask, init_fields) if p]}, **kw)
            facts = {"allow_not_by_alias": allow, "levels": levels, "override": bool(overrides), "diamond": diamond, "via_holder_after_ancestor": via_holder,
                     "undecorated_base": zbase is not None, "bare_reannotation": any(o.get("bare") for o in overrides), "plain_config_chain": plain_chain}
            try:
                r = dec(dict(d))
                r2 = dec(dict(d))
            except MissingField as e:
                if miss is not None and e.field_name == miss:
                    rec.count("agree_missing")
                elif zbase is not None and e.field_name in [n for p, n in zip(mask, init_fields) if not p and spec[n]["role"] in ("req", "kwreq")]:
                    # with an undecorated base annotating member names "the first missing member" depends on whose order
                    # is meant (typing's or dataclasses'): any absent required member is accepted
                    rec.count("agree_missing")
                else:
                    rec.violation("wrong-or-unexpected-MissingField", det(observed_field=e.field_name, expected_field=miss), facts)
                continue
            except Exception as e:
                rec.violation(f"exception:{type(e).__name__}", det(error=f"{type(e).__name__}: {e}"[:300]), facts)
                continue
            if miss is not None:
                rec.violation("instance-despite-missing-required-key", det(expected_missing=miss, observed=common.short(r)), facts)
                continue
            got = {}
            for name in order:
                if spec[name]["role"] in ("initvar", "classvar"):
                    continue
                got[name] = getattr(r, name, "<unset>")
            bad = [n for n in exp if not same(got.get(n), exp[n])]
            if bad:
                rec.violation("field-value-differs:" + ("absent-key" if not all(p for p, n in zip(mask, init_fields) if n in bad) else "present-key"),
                              det(fields=bad, observed={n: common.short(got.get(n), 80) for n in bad}, expected={n: common.short(exp[n], 80) for n in bad}), facts)
                continue
            rec.count("agree_instance")
            # classvars untouched
            for name in nonit:
                if spec[name]["role"] == "classvar" and getattr(cls, name) != spec[name]["default"]:
                    rec.violation("classvar-modified", det(field=name), facts)
            # factory results are fresh and unshared
            for present, name in zip(mask, init_fields):
                if not present and spec[name]["role"] == "fac":
                    rec.count("factory_pairs_checked")
                    if getattr(r, name) is getattr(r2, name):
                        rec.violation("factory-result-shared-between-instances", det(field=name), facts)
            rec.nontrivial((layout_sig, mask))
            if not sampled and any(mask) and not all(mask):
                sampled = True
                rec.sample({"source": "\n".join(src), "input": common.short(d, 200), "result": common.short(r, 200)})
    finally:
        fam.dispose()


def same(a, b):
    return type(a) is type(b) and a == b
