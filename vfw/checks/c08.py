"""C08 - serialization options only project the plain output."""
from __future__ import annotations

import datetime
import decimal
import itertools
import math
import random
import uuid

from ..family import Family
from . import common

LEVEL = "exploration"
EXHAUSTIVE = True
RULE = ("case = one random schema (3-7 fields drawn from 18 field kinds: required/nullable/defaulted/factory/NaN/"
        "tuple/UUID/enum/Decimal defaults, serialize='omit', nested and optional nested dataclass with its own "
        "options; aliases from metadata / Annotated / Config.aliases; in ~40% of the schemas the fields are spread "
        "over two bases M(P1, P2) that declare one field with different defaults and aliases). For the schema the option lattice "
        "{unset,False,True}^3 (omit_none, omit_default, serialize_by_alias) x sort_keys x lazy_compilation x 6 "
        "code-generation flag subsets x {no Config.dialect, 2 dialect option vectors} is enumerated EXHAUSTIVELY; "
        "every class is called with every keyword vector its flags allow (and a call dialect when supported) on 4 "
        "instances. Oracle: list(to_dict(**kw).items()) == PROJECT(effective options, plain output) incl. key "
        "order, nested classes projected with their own effective options. distinct_nontrivial = distinct "
        "(schema, lattice point, keyword vector, instance) tuples.")
RULE += " Additions: two Alias annotations on one field; options inherited from a parent dialect and passed through Dialect.merge; the first (compiling) call of a lazy class made with every keyword vector."
ASSUMPTIONS = ["exhaustive over the stated lattice per schema (exhaustive=true refers to that); schemas are random",
               "effective option = keyword > call dialect > Config.dialect > Config > False, as the property states"]
BUDGET_S = {"quick": 240, "thorough": 1500}
MIN_EVENTS = {"quick": {"evaluations": 100000, "agree": 100000}, "thorough": {"evaluations": 2000000, "agree": 2000000}}
JOBS = {"quick": 16, "thorough": 16}

D = datetime.date
NAN = float("nan")
TRI = [None, False, True]
FLAGSETS = [(), ("TO_DICT_ADD_OMIT_NONE_FLAG",), ("TO_DICT_ADD_BY_ALIAS_FLAG",),
            ("TO_DICT_ADD_OMIT_NONE_FLAG", "TO_DICT_ADD_BY_ALIAS_FLAG"), ("ADD_DIALECT_SUPPORT",),
            ("TO_DICT_ADD_OMIT_NONE_FLAG", "TO_DICT_ADD_BY_ALIAS_FLAG", "ADD_DIALECT_SUPPORT", "ADD_SERIALIZATION_CONTEXT")]


def n_cases(tier):
    return 16 if tier == "quick" else 256


def worker_setup(tier, rec):
    return common.install_monitors(rec, coverage=True)


def worker_finish(tier, rec, st):
    common.finish_monitors(rec, st)


def iso(v):
    return v.isoformat()


# kind: (annotation, default source | None, factory?, [values], encoder)
KINDS = {
    "req_int": ("int", None, False, [1, 0, -5], lambda v: v),
    "req_date": ("datetime.date", None, False, [D(2020, 1, 2), D(1999, 12, 31)], iso),
    "req_opt": ("Optional[int]", None, False, [None, 4], lambda v: v),
    "opt_none": ("Optional[int]", "None", False, [None, 5, 0], lambda v: v),
    "opt_str": ("Optional[str]", "'dflt'", False, ["dflt", None, "x"], lambda v: v),
    "opt_zero": ("Optional[int]", "0", False, [0, None, 3], lambda v: v),
    "opt_empty": ("Optional[str]", "''", False, ["", None, "x"], lambda v: v),
    "opt_false": ("Optional[bool]", "False", False, [False, None, True], lambda v: v),
    "opt_flist": ("Optional[List[int]]", "[]", True, [[], None, [1]], lambda v: None if v is None else list(v)),
    "opt_fdates": ("Optional[List[datetime.date]]", "[]", True, [[], None, [D(2020, 1, 2)]], lambda v: None if v is None else [iso(x) for x in v]),
    "opt_date_none": ("Optional[datetime.date]", "None", False, [None, D(2021, 3, 4)], lambda v: None if v is None else iso(v)),
    "opt_date": ("Optional[datetime.date]", "datetime.date(2000, 1, 1)", False, [D(2000, 1, 1), None, D(2021, 3, 4)], lambda v: None if v is None else iso(v)),
    "fac_list": ("List[int]", "[1, 2]", True, [[1, 2], [], [3]], lambda v: list(v)),
    "fac_dates": ("List[datetime.date]", "[datetime.date(2000, 1, 1)]", True, [[D(2000, 1, 1)], []], lambda v: [iso(x) for x in v]),
    "nan": ("float", "float('nan')", False, [NAN, 1.5, 0.0], lambda v: v),
    "inf": ("float", "float('inf')", False, [float("inf"), 2.0], lambda v: v),
    "tuple_int": ("Optional[Tuple[int, ...]]", "(1, 2)", False, [(1, 2), (), None], lambda v: None if v is None else list(v)),
    "uuid": ("uuid.UUID", "uuid.UUID(int=1)", False, [uuid.UUID(int=1), uuid.UUID(int=2)], str),
    "enum": ("Color", "Color.R", False, ["Color.R", "Color.G"], None),
    "dec": ("decimal.Decimal", "decimal.Decimal('1.50')", False, [decimal.Decimal("1.50"), decimal.Decimal("1.5"), decimal.Decimal("2")], str),
    "any_none": ("Any", "None", False, [None, 0, [1]], lambda v: v),
    "int_dflt": ("int", "7", False, [7, 8, True], lambda v: v),
    "union_none": ("Union[int, str, None]", "None", False, [None, 3, "s"], lambda v: v),
    "date_dflt": ("datetime.date", "datetime.date(2001, 2, 3)", False, [D(2001, 2, 3), D(2010, 1, 1)], iso),
    "omit": ("int", "7", False, [7, 9], lambda v: v),
    # a field typed Self: the nested node is the same class, so every keyword flag and the call dialect reach it
    "self_opt": ("Optional[Self]", "None", False, [None, "SELF", "SELF"], None),
    "nested": ("N", "N()", True, ["N()", "N(o=4, al=5)", "N(o=None, al=3, d=datetime.date(2011, 1, 1))"], None),
    "opt_nested": ("Optional[N]", "None", False, [None, "N(o=1)"], None),
    "tuple_uuid": ("Tuple[uuid.UUID, ...]", "(uuid.UUID(int=1),)", False, [(uuid.UUID(int=1),), ()], lambda v: [str(x) for x in v]),
}
NAMES = ["z", "a", "m", "c", "q", "b", "k", "y", "d"]
# another default for the same annotation (one of the kind's instance values): what the losing base declares
ALT_DEFAULT = {"opt_str": "'x'", "opt_zero": "3", "int_dflt": "8", "opt_none": "5", "opt_date": "None", "opt_empty": "'x'",
               "date_dflt": "datetime.date(2010, 1, 1)", "dec": "decimal.Decimal('2')", "opt_false": "True", "opt_date_none": "datetime.date(2021, 3, 4)"}


def gen_schema(rng):
    n = rng.randint(3, 7)
    kinds = ["req_int"] + [rng.choice([k for k in KINDS if not k.startswith("req_")]) for _ in range(n - 1)]
    if rng.random() < 0.4:
        kinds.insert(1, rng.choice(["req_date", "req_opt"]))
    # kinds with their own default-comparison / rendering rules appear in every other schema at least
    for must in ("enum", "nan", "dec", "uuid"):
        if must not in kinds and rng.random() < 0.5:
            kinds.append(must)
    # required fields first (dataclass rule)
    kinds.sort(key=lambda k: 0 if k.startswith("req_") else 1)
    names = rng.sample(NAMES + ['e', 'f', 'g', 'h'], len(kinds))
    fields = []
    for name, kind in zip(names, kinds):
        alias_src = rng.choice([None, None, "meta", "ann", "cfg", "ann2"])
        if kind == "omit" and alias_src in ("ann", "ann2"):
            alias_src = None
        fields.append({"name": name, "kind": kind, "alias_src": alias_src, "alias": f"AL_{name}" if alias_src else None})
    # two bases declaring the same field differently: M(P1, P2); dataclasses (and the property's "field default" /
    # "alias") take P1's declaration (the reversed MRO is walked root first, P1 last)
    inherit = None
    shared = [f for f in fields if f["kind"] in ALT_DEFAULT and f["alias_src"] in (None, "meta")]
    if shared and rng.random() < 0.45:
        sh = rng.choice(shared)
        req = [f for f in fields if f["kind"].startswith("req_")]
        rest = [f for f in fields if f not in req and f is not sh]
        rng.shuffle(rest)
        cut = rng.randint(0, len(rest))
        fields = req + [sh] + rest[:cut] + rest[cut:]
        inherit = {"shared": sh["name"], "p2": [f["name"] for f in req], "p1": [f["name"] for f in rest[:cut]],
                   "leaf": [f["name"] for f in rest[cut:]], "mixin_on": rng.choice(["p2", "leaf"]),
                   "stale_alias": rng.random() < 0.7}
    nested_cfg = {
        "omit_none": rng.choice(TRI), "omit_default": rng.choice(TRI), "serialize_by_alias": rng.choice(TRI),
        "flags": rng.choice(FLAGSETS),
    }
    dialect_vectors = [None]
    for _ in range(2):
        dv = {o: rng.choice([True, False]) for o in ("omit_none", "omit_default", "serialize_by_alias") if rng.random() < 0.6}
        dialect_vectors.append(dv or {"omit_none": True})
    call_vector = {o: rng.choice([True, False]) for o in ("omit_none", "omit_default", "serialize_by_alias") if rng.random() < 0.7} or {"serialize_by_alias": True}
    return {"fields": fields, "nested_cfg": nested_cfg, "dialect_vectors": dialect_vectors, "call_vector": call_vector, "inherit": inherit}


def cfg_lines(on, od, ba, extra=()):
    lines = []
    if on is not None:
        lines.append(f"omit_none = {on}")
    if od is not None:
        lines.append(f"omit_default = {od}")
    if ba is not None:
        lines.append(f"serialize_by_alias = {ba}")
    lines += list(extra)
    return lines


PREAMBLE = """
class Color(enum.Enum):
    R = 'r'
    G = 'g'
"""


def nested_src(nc):
    lines = ["@dataclass", "class N(DataClassDictMixin):",
             "    o: Optional[int] = None",
             "    al: int = field(default=3, metadata=field_options(alias='AL'))",
             "    d: datetime.date = datetime.date(2000, 1, 1)",
             "    class Config(BaseConfig):"]
    body = cfg_lines(nc["omit_none"], nc["omit_default"], nc["serialize_by_alias"],
                     [f"code_generation_options = [{', '.join(nc['flags'])}]"])
    lines += ["        " + b for b in body]
    return "\n".join(lines) + "\n"


def class_src(schema, name, on, od, ba, sort_keys, flags, lazy, dvec):
    lines = []
    dialect_expr = f"D_{name}"
    if dvec is not None:
        style = sum(map(ord, name)) % 3
        if style == 0:
            lines += [f"class D_{name}(Dialect):"] + [f"    {k} = {v}" for k, v in dvec.items()]
        else:
            # the options are INHERITED from a parent dialect
            lines += [f"class DP_{name}(Dialect):"] + [f"    {k} = {v}" for k, v in dvec.items()]
            lines += [f"class D_{name}(DP_{name}):", "    pass"]
            if style == 2:
                # ... and reach the class through Dialect.merge (what format codecs do with a default_dialect)
                lines += [f"class DB_{name}(Dialect):", "    no_copy_collections = ()"]
                dialect_expr = f"DB_{name}.merge(D_{name})"
    inh = schema.get("inherit")
    by_name = {f["name"]: f for f in schema["fields"]}
    cfg_aliases = {}

    def field_line(f, stale=False):
        ann, dsrc, fac, values, enc = KINDS[f["kind"]]
        if f["alias_src"] == "ann":
            ann = f"Annotated[{ann}, Alias({f['alias']!r})]"
        elif f["alias_src"] == "ann2":
            # a reusable annotated type carrying an alias of its own, re-annotated by the field: the LAST alias counts
            ann = f"Annotated[Annotated[{ann}, Alias({'INNER_' + f['name']!r})], 'doc', Alias({f['alias']!r})]"
        meta = []
        if stale:
            dsrc = ALT_DEFAULT[f["kind"]]
            if inh["stale_alias"]:
                meta.append(f"alias={'STALE_' + f['name']!r}")
        elif f["alias_src"] == "meta":
            meta.append(f"alias={f['alias']!r}")
        if f["alias_src"] == "cfg":
            cfg_aliases[f["name"]] = f["alias"]
        if f["kind"] == "omit":
            meta.append("serialize='omit'")
        args = []
        if dsrc is not None:
            args.append(f"default_factory=lambda: {dsrc}" if fac else f"default={dsrc}")
        if meta:
            args.append(f"metadata=field_options({', '.join(meta)})")
        line = f"    {f['name']}: {ann}"
        if args:
            if len(args) == 1 and args[0].startswith("default="):
                line += " = " + args[0][8:]
            else:
                line += f" = field({', '.join(args)})"
        return line
    if inh:
        mix = "(DataClassDictMixin)" if inh["mixin_on"] == "p2" else ""
        lines += ["@dataclass", f"class P2_{name}{mix}:"] + [field_line(by_name[n]) for n in inh["p2"]] + [field_line(by_name[inh["shared"]], stale=True)]
        lines += ["@dataclass", f"class P1_{name}:"] + [field_line(by_name[inh["shared"]])] + [field_line(by_name[n]) for n in inh["p1"]]
        lines += ["@dataclass", f"class {name}(P1_{name}, P2_{name}" + (", DataClassDictMixin" if inh["mixin_on"] == "leaf" else "") + "):"]
        own = [by_name[n] for n in inh["leaf"]]
    else:
        lines += ["@dataclass", f"class {name}(DataClassDictMixin):"]
        own = schema["fields"]
    for f in own:
        lines.append(field_line(f))
    for f in []:
        ann, dsrc, fac, values, enc = KINDS[f["kind"]]
        if f["alias_src"] == "ann":
            ann = f"Annotated[{ann}, Alias({f['alias']!r})]"
        meta = []
        if f["alias_src"] == "meta":
            meta.append(f"alias={f['alias']!r}")
        if f["alias_src"] == "cfg":
            cfg_aliases[f["name"]] = f["alias"]
        if f["kind"] == "omit":
            meta.append("serialize='omit'")
        args = []
        if dsrc is not None:
            args.append(f"default_factory=lambda: {dsrc}" if fac else f"default={dsrc}")
        if meta:
            args.append(f"metadata=field_options({', '.join(meta)})")
        line = f"    {f['name']}: {ann}"
        if args:
            if len(args) == 1 and args[0].startswith("default="):
                line += " = " + args[0][8:]
            else:
                line += f" = field({', '.join(args)})"
        lines.append(line)
    lines.append("    class Config(BaseConfig):")
    extra = [f"sort_keys = {sort_keys}", f"lazy_compilation = {lazy}",
             f"code_generation_options = [{', '.join(flags)}]"]
    if cfg_aliases:
        extra.append(f"aliases = {cfg_aliases!r}")
    if dvec is not None:
        extra.append(f"dialect = {dialect_expr}")
    lines += ["        " + b for b in cfg_lines(on, od, ba, extra)]
    return "\n".join(lines) + "\n"


def eff(opt, kw, chain):
    """keyword > call dialect > Config.dialect > Config > False."""
    if opt in kw:
        return kw[opt]
    for ns in chain:
        if ns and ns.get(opt) is not None:
            return ns[opt]
    return False


def default_eq(raw, dflt):
    if isinstance(dflt, float) and math.isnan(dflt):
        return isinstance(raw, float) and math.isnan(raw)
    return raw == dflt


def project_nested(x, nc, inherited_kw, call_vec, quirk_f25=False):
    """expected items of the nested class N under its own effective options."""
    chain = [call_vec, None, nc]
    ch_on = ch_ba = chain
    if quirk_f25 and call_vec is not None:
        # same mechanism one level down: N's generic method forwards its own flag defaults
        if "TO_DICT_ADD_OMIT_NONE_FLAG" in nc["flags"] and "omit_none" not in inherited_kw:
            ch_on = [None, None, nc]
        if "TO_DICT_ADD_BY_ALIAS_FLAG" in nc["flags"] and "serialize_by_alias" not in inherited_kw:
            ch_ba = [None, None, nc]
    on = eff("omit_none", inherited_kw, ch_on)
    od = eff("omit_default", {}, chain)
    ba = eff("serialize_by_alias", inherited_kw, ch_ba)
    out = []
    for name, dflt, alias, enc in (("o", None, None, lambda v: v), ("al", 3, "AL", lambda v: v),
                                   ("d", D(2000, 1, 1), None, iso)):
        raw = getattr(x, name)
        if on and raw is None:
            continue
        if od and raw == dflt:
            continue
        out.append((alias if (ba and alias) else name, None if raw is None else enc(raw)))
    return out


def run_case(seed, tier, rec, st):
    rng = random.Random(seed)
    schema = gen_schema(rng)
    fam = Family("c08")
    try:
        fam.exec_src(PREAMBLE + nested_src(schema["nested_cfg"]))
        mod = fam.module
        nc = schema["nested_cfg"]
        callvec = schema["call_vector"]
        if rng.random() < 0.5:
            fam.exec_src("class CallD(Dialect):\n" + "\n".join(f"    {k} = {v}" for k, v in callvec.items()) + "\n")
        else:
            fam.exec_src("class CallDP(Dialect):\n" + "\n".join(f"    {k} = {v}" for k, v in callvec.items()) + "\n"
                         "class CallDC(CallDP):\n    pass\nclass CallDB(Dialect):\n    pass\nCallD = CallDB.merge(CallDC)\n")
            rec.count("call_dialect_inherited_and_merged")
        CallD = mod.CallD
        idx = 0
        schema_sig = tuple((f["kind"], f["alias_src"]) for f in schema["fields"]) + (bool(schema["inherit"]),)
        if schema["inherit"]:
            rec.count("schemas_with_two_bases")
        sampled = False
        # instances: per-field value picks (source strings are evaluated inside the family module)
        value_rows = []
        for r in range(4):
            row = {}
            for f in schema["fields"]:
                vals = KINDS[f["kind"]][3]
                row[f["name"]] = vals[0] if r == 0 else rng.choice(vals)
            value_rows.append(row)
        by_kind = {f["name"]: f["kind"] for f in schema["fields"]}
        defaults = {}
        for f in schema["fields"]:
            dsrc = KINDS[f["kind"]][1]
            if dsrc is not None:
                defaults[f["name"]] = eval(dsrc, mod.__dict__)
        for on, od, ba, sort_keys, flags, lazy, dvec in itertools.product(
                TRI, TRI, TRI, (False, True), FLAGSETS, (False, True), schema["dialect_vectors"]):
            idx += 1
            cname = f"M{idx}"
            src = class_src(schema, cname, on, od, ba, sort_keys, flags, lazy, dvec)
            try:
                fam.exec_src(src)
            except Exception as e:
                rec.violation(f"class-build:{type(e).__name__}", {"source": src, "error": f"{type(e).__name__}: {e}"[:300]},
                              {"stage": "build", "exc": type(e).__name__, "omit_default": bool(od) or bool(dvec and dvec.get("omit_default")),
                               "kinds": sorted({f["kind"] for f in schema["fields"]})})
                continue
            M = getattr(mod, cname)
            cfg = {"omit_none": on, "omit_default": od, "serialize_by_alias": ba}
            kwsets = [{}]
            if "TO_DICT_ADD_OMIT_NONE_FLAG" in flags:
                kwsets += [{"omit_none": True}, {"omit_none": False}]
            if "TO_DICT_ADD_BY_ALIAS_FLAG" in flags:
                kwsets += [{"by_alias": True}, {"by_alias": False}]
            if "TO_DICT_ADD_OMIT_NONE_FLAG" in flags and "TO_DICT_ADD_BY_ALIAS_FLAG" in flags:
                kwsets += [{"omit_none": True, "by_alias": True}]
            if "ADD_DIALECT_SUPPORT" in flags:
                kwsets += [dict(k, dialect=CallD) for k in list(kwsets)]
            # which keyword vector makes the FIRST (for a lazy class: the compiling) call varies
            random.Random(seed * 1000003 + idx).shuffle(kwsets)
            for row in value_rows:
                try:
                    kwargs = {n: (eval(v, mod.__dict__) if isinstance(v, str) and (v.startswith("N(") or v.startswith("Color.")) else v)
                              for n, v in row.items()}
                    selfs = [n for n, v in kwargs.items() if isinstance(v, str) and v == "SELF" and by_kind.get(n) == "self_opt"]
                    for n in selfs:
                        kwargs[n] = None
                    child_kwargs = dict(kwargs)
                    for n in selfs:
                        kwargs[n] = M(**child_kwargs)
                    x = M(**kwargs)
                except Exception as e:
                    rec.count("instance_build_failed")
                    continue
                for kw in kwsets:
                    rec.evaluation()
                    call_d = callvec if "dialect" in kw else None
                    okw = {}
                    if "omit_none" in kw:
                        okw["omit_none"] = kw["omit_none"]
                    if "by_alias" in kw:
                        okw["serialize_by_alias"] = kw["by_alias"]
                    def expectation(quirk_f25=False, x=x, okw=okw, codec_default=None):
                        # F25 mechanism: with a keyword flag enabled and the keyword not passed, the outer
                        # method forwards its own compiled default, which shadows the call dialect's option
                        ch_on = ch_ba = [call_d, dvec, cfg, codec_default]
                        if quirk_f25 and call_d is not None:
                            if "TO_DICT_ADD_OMIT_NONE_FLAG" in flags and "omit_none" not in okw:
                                ch_on = [None, dvec, cfg]
                            if "TO_DICT_ADD_BY_ALIAS_FLAG" in flags and "serialize_by_alias" not in okw:
                                ch_ba = [None, dvec, cfg]
                        e_on = eff("omit_none", okw, ch_on)
                        e_od = eff("omit_default", {}, [call_d, dvec, cfg, codec_default])
                        e_ba = eff("serialize_by_alias", okw, ch_ba)
                        # what reaches the nested class: keyword values only if both sides enabled the flag
                        nkw = {}
                        if "TO_DICT_ADD_OMIT_NONE_FLAG" in flags and "TO_DICT_ADD_OMIT_NONE_FLAG" in nc["flags"]:
                            nkw["omit_none"] = e_on
                        if "TO_DICT_ADD_BY_ALIAS_FLAG" in flags and "TO_DICT_ADD_BY_ALIAS_FLAG" in nc["flags"]:
                            nkw["serialize_by_alias"] = e_ba
                        n_call = call_d if ("ADD_DIALECT_SUPPORT" in flags and "ADD_DIALECT_SUPPORT" in nc["flags"]) else None
                        exp = []
                        order = sorted(schema["fields"], key=lambda f: f["name"]) if sort_keys else schema["fields"]
                        for f in order:
                            if f["kind"] == "omit":
                                continue
                            raw = getattr(x, f["name"])
                            if e_on and raw is None:
                                continue
                            if e_od and f["name"] in defaults and default_eq(raw, defaults[f["name"]]):
                                continue
                            key = f["alias"] if (e_ba and f["alias"]) else f["name"]
                            if raw is None:
                                val = None
                            elif f["kind"] in ("nested", "opt_nested"):
                                val = dict(project_nested(raw, nc, nkw, n_call, quirk_f25))
                            elif f["kind"] == "self_opt":
                                # the same class one level down: flagged keywords are passed on explicitly, the call
                                # dialect travels with ADD_DIALECT_SUPPORT (call_d is None without it)
                                skw = {}
                                if "TO_DICT_ADD_OMIT_NONE_FLAG" in flags:
                                    skw["omit_none"] = e_on
                                if "TO_DICT_ADD_BY_ALIAS_FLAG" in flags:
                                    skw["serialize_by_alias"] = e_ba
                                val = dict(expectation(quirk_f25, x=raw, okw=skw, codec_default=codec_default)[0])
                            elif f["kind"] == "enum":
                                val = raw.value
                            else:
                                val = KINDS[f["kind"]][4](raw)
                            exp.append((key, val))
                        return exp, e_on, e_od, e_ba

                    exp, e_on, e_od, e_ba = expectation()
                    facts = {"omit_default": e_od, "omit_none": e_on, "by_alias": e_ba, "lazy": lazy, "flags": list(flags),
                             "kw": sorted(kw), "call_dialect": "dialect" in kw, "config_dialect": dvec is not None,
                             "kinds": sorted({f["kind"] for f in schema["fields"]}),
                             "kw_flag_and_call_dialect_conflict": bool(
                                 "dialect" in kw and (("TO_DICT_ADD_OMIT_NONE_FLAG" in flags and "omit_none" not in kw and "omit_none" in callvec)
                                                      or ("TO_DICT_ADD_BY_ALIAS_FLAG" in flags and "by_alias" not in kw and "serialize_by_alias" in callvec)))}
                    try:
                        got = x.to_dict(**kw)
                    except Exception as e:
                        rec.violation(f"to_dict-exception:{type(e).__name__}",
                                      {"source": src, "kw": repr(kw), "instance": common.short(x), "error": f"{type(e).__name__}: {e}"[:300]},
                                      dict(facts, exc=type(e).__name__, msg=str(e)[:120]))
                        continue
                    if same_items(list(got.items()), exp):
                        rec.count("agree")
                        rec.nontrivial((schema_sig, on, od, ba, sort_keys, flags, lazy, repr(dvec), repr(sorted(kw)), repr(row)))
                        if not sampled and (e_on or e_od or e_ba) and len(exp) >= 2:
                            sampled = True
                            rec.sample({"source": src, "kw": repr(kw), "instance": common.short(x, 200), "output": common.short(got, 200)})
                        if kw == {} and row is value_rows[0] and idx % 4 == 0 and not any(f["kind"] in ("nested", "opt_nested") for f in schema["fields"]):
                            # codec objects for the same class, first without then with a default dialect (the LOWEST level):
                            # each has its own compiled packer
                            from mashumaro.codecs.basic import BasicEncoder
                            for cd_name, cd in ((None, None), ("CallD", callvec)):
                                rec.evaluation()
                                try:
                                    cgot = BasicEncoder(M, **({"default_dialect": CallD} if cd else {})).encode(x)
                                except Exception as e:
                                    cgot = {"EXC": f"{type(e).__name__}: {e}"[:150]}
                                cexp = expectation(codec_default=cd)[0]
                                if same_items(list(cgot.items()), cexp):
                                    rec.count("agree")
                                    rec.count("codec_default_dialect_agree")
                                else:
                                    rec.violation("projection-mismatch:codec-object", {"source": src, "default_dialect": cd, "observed": common.short(list(cgot.items()), 400),
                                                  "expected": common.short(cexp, 400)}, dict(facts, codec_default_dialect=bool(cd)))
                    else:
                        if same_items(list(got.items()), expectation(quirk_f25=True)[0]):
                            facts["explained_by"] = "F25"
                        which = "keys" if [k for k, _ in got.items()] != [k for k, _ in exp] else "values"
                        rec.violation(f"projection-mismatch:{which}",
                                      {"source": nested_src(nc) + src, "kw": repr(kw), "call_dialect": callvec if "dialect" in kw else None,
                                       "instance": common.short(x, 300), "observed": common.short(list(got.items()), 500), "expected": common.short(exp, 500)},
                                      facts)
    finally:
        fam.dispose()


def same_items(a, b):
    if len(a) != len(b):
        return False
    for (k1, v1), (k2, v2) in zip(a, b):
        if k1 != k2 or not same_val(v1, v2):
            return False
    return True


def same_val(a, b):
    if isinstance(a, float) and isinstance(b, float) and math.isnan(a) and math.isnan(b):
        return True
    if type(a) is not type(b):
        return False
    if isinstance(a, dict):
        return list(a.keys()) == list(b.keys()) and all(same_val(a[k], b[k]) for k in a)
    if isinstance(a, list):
        return len(a) == len(b) and all(same_val(x, y) for x, y in zip(a, b))
    return a == b
