"""C09 - input keys are resolved by the documented alias rules."""
from __future__ import annotations

import datetime
import itertools
import random

from ..family import Family
from . import common

LEVEL = "exploration"
EXHAUSTIVE = True
RULE = ("case = one random alias configuration: 2-3 fields (identity / converted / Any / Optional types, with or "
        "without defaults), each with an alias from none / field metadata / Annotated Alias / Config.aliases (several "
        "sources at once to exercise precedence), aliases that shadow another field's name or alias (chains and "
        "cycles), allow_deserialization_not_by_alias x forbid_extra_keys, optional class-level discriminator field. "
        "For the configuration ALL subsets of the candidate key set {names, every alias, 'None', a stranger} (<= 2^9) "
        "are fed to from_dict (Annotated metadata that is not an Alias mixed in; optionally an init=False member whose name is a candidate key), each key carrying a distinct value. Oracle KEYMODEL: which key each field reads, "
        "MissingField for the first unreadable required field, ExtraKeysError with exactly the unexpected keys. "
        "distinct_nontrivial = distinct (configuration, key subset) pairs.")
RULE += " Additions: key-rewriting __pre_deserialize__ under forbid_extra_keys; plain Config classes inheriting from each other; non-string stranger keys."
ASSUMPTIONS = ["exhaustive over key subsets per configuration; configurations are random"]
BUDGET_S = {"quick": 120, "thorough": 900}
MIN_EVENTS = {"quick": {"evaluations": 100000, "agree_ok": 30000, "agree_extra": 20000, "agree_missing": 5000},
              "thorough": {"evaluations": 1500000, "agree_ok": 300000, "agree_extra": 150000, "agree_missing": 80000}}

# wires are digit strings, valid for every non-date field that may read a shared key
TYPES = {
    "int": ("int", lambda i: str(100 + i), int),
    "date": ("datetime.date", lambda i: f"2020-01-{i % 28 + 1:02d}", lambda w: datetime.date.fromisoformat(w)),
    "any": ("Any", lambda i: str(100 + i), lambda w: w),
    "oint": ("Optional[int]", lambda i: str(100 + i), int),
    "str": ("str", lambda i: str(100 + i), str),
}


def n_cases(tier):
    return 3000 if tier == "quick" else 200000


def worker_setup(tier, rec):
    return common.install_monitors(rec)


def worker_finish(tier, rec, st):
    common.finish_monitors(rec, st)


def no_parameters_case(rng, rec, fam):
    """a dataclass without constructor parameters (no members, or init=False members only): every key is a stranger."""
    from mashumaro.codecs.basic import BasicDecoder
    from mashumaro.exceptions import ExtraKeysError
    forbid = rng.random() < 0.7
    mixin = rng.random() < 0.6
    body = rng.choice(["    pass\n", "    ni: int = field(default=1, init=False)\n", "    cv: ClassVar[int] = 3\n"])
    src = f"@dataclass\nclass E{'(DataClassDictMixin)' if mixin else ''}:\n{body}    class Config(BaseConfig):\n        forbid_extra_keys = {forbid}\n"
    fam.exec_src(src)
    E = fam.module.E
    dec = E.from_dict if mixin else BasicDecoder(E).decode
    for d in ({}, {"stranger": 1}, {"ni": 5}, {"a": 1, 7: 2}):
        rec.evaluation()
        exp = ("extra", set(d)) if (forbid and d) else ("ok",)
        try:
            dec(dict(d))
            got = ("ok",)
        except ExtraKeysError as e:
            got = ("extra", set(e.extra_keys))
        except Exception as e:
            got = ("exc", f"{type(e).__name__}: {e}"[:120])
        if got == exp:
            rec.count("agree_" + exp[0])
            rec.count("no_parameters_agree")
            rec.nontrivial(("no-parameters", forbid, mixin, body, repr(sorted(map(repr, d)))))
        else:
            rec.violation(f"keymodel-mismatch:no-parameters:{exp[0]}->{got[0]}", {"source": src, "input": repr(d), "observed": common.short(got), "expected": common.short(exp)},
                          {"forbid": forbid, "no_parameters": True})


def run_case(seed, tier, rec, st):
    from mashumaro.codecs.basic import BasicDecoder
    from mashumaro.exceptions import ExtraKeysError, MissingField
    rng = random.Random(seed)
    fam = Family("c09")
    try:
        if rng.random() < 0.03:
            return no_parameters_case(rng, rec, fam)
        nf = rng.randint(2, 3)
        names = ["x", "y", "w"][:nf]
        allow = rng.random() < 0.5
        forbid = rng.random() < 0.5
        discr = rng.random() < 0.15
        fields = []
        # alias pool: fresh names, other fields' names, other fields' aliases (shadowing / chains / cycles)
        for i, n in enumerate(names):
            f = {"name": n, "tk": rng.choice(list(TYPES)), "default": rng.random() < 0.5 or i > 0, "meta": None, "ann": None, "cfg": None}
            for src in ("meta", "ann", "cfg"):
                r = rng.random()
                if r < 0.3:
                    pool = [f"{src[0]}{n}"] + [o for o in names if o != n] + ["shared", ""]
                    f[src] = rng.choice(pool)
            fields.append(f)
        if rng.random() < 0.3 and nf >= 2:
            # alias chain: x -> "y", y -> "_y"  (and sometimes the cycle back)
            fields[0][rng.choice(["meta", "ann", "cfg"])] = names[1]
            fields[1]["meta"] = "_" + names[1] if rng.random() < 0.6 else names[0]
        # a date field must not share any key it may read with another field (its wire form differs)
        def keyset(f):
            return {k for k in (f["name"], f["meta"], f["ann"], f["cfg"]) if k is not None}
        for f in fields:
            if f["tk"] == "date" and any(o is not f and keyset(o) & keyset(f) for o in fields):
                f["tk"] = "str"
        cfg_aliases = {f["name"]: f["cfg"] for f in fields if f["cfg"] is not None}
        undecorated_root = discr and rng.random() < 0.4
        stale_bases = (not discr) and rng.random() < 0.25
        mixin_src = "DataClassDictMixin" if (discr or rng.random() < 0.75) else ""
        lines = ["@dataclass", "class M(" + ("RootCfg" if undecorated_root else "Mid" if stale_bases else mixin_src) + "):"]
        lines[1] = lines[1].replace("()", "")
        field_lines_at = len(lines)
        for i, f in enumerate(fields):
            ann = TYPES[f["tk"]][0]
            if f["ann"] is not None:
                extra = rng.choice(["", "", "'doc', ", "Minimum(0), "]) if f["tk"] in ("int", "oint") else rng.choice(["", "", "'doc', "])
                ann = f"Annotated[{ann}, {extra}Alias({f['ann']!r})]"
            elif rng.random() < 0.3:
                # Annotated carrying something that is NOT an alias: every other alias source still applies
                ann = f"Annotated[{ann}, {rng.choice([repr('doc'), 'Maximum(10**9)' if f['tk'] in ('int', 'oint') else repr('note')])}]"
            args = []
            if f["default"]:
                args.append("default=None" if f["tk"] in ("oint", "any") and rng.random() < 0.5 else f"default=_DEF[{i}]")
                f["default_is_none"] = args[-1] == "default=None"
            if f["meta"] is not None:
                args.append(f"metadata=field_options(alias={f['meta']!r})")
            elif f["tk"] in ("int", "str", "date") and rng.random() < 0.25:
                # field_options used for something else (its alias argument stays None): the other alias sources still apply
                args.append(f"metadata=field_options(deserialize=_CONV[{i}])")
                f["field_options_without_alias"] = True
            lines.append(f"    {f['name']}: {ann}" + (f" = field({', '.join(args)})" if args else ""))
        declared = lines[field_lines_at:]
        noinit = rng.random() < 0.25
        if noinit:
            # a member that is not a constructor parameter: its name is never an accepted key
            declared.append("    ni: int = field(default=0, init=False)")
        config = ["    class Config(BaseConfig):", f"        allow_deserialization_not_by_alias = {allow}",
                  f"        forbid_extra_keys = {forbid}"]
        if cfg_aliases:
            config.append(f"        aliases = {cfg_aliases!r}")
        if discr:
            config.append("        discriminator = Discriminator(field='kind', include_subtypes=True)")
        if rng.random() < 0.15:
            config.append("        lazy_compilation = True")
        # a key-rewriting __pre_deserialize__ hook: the key rules (incl. forbid_extra_keys) apply to what the hook returns
        hook = bool(mixin_src) and not discr and rng.random() < 0.2
        hook_lines = ["    @classmethod", "    def __pre_deserialize__(cls, d):", "        d = dict(d)", "        d.pop('legacy', None)",
                      "        if 'hooked' in d:", "            d['stranger2'] = d.pop('hooked')", "        return d"] if hook else []
        plain_cfg_chain = False
        if undecorated_root:
            # (G) the Config (discriminator, forbid_extra_keys ...) lives on a base that is NOT a dataclass
            lines = ["class RootCfg(DataClassDictMixin):"] + config + ["@dataclass", "class M(RootCfg):"] + (declared or ["    pass"])
        elif stale_bases:
            # (F) three levels: Base declares every field with OTHER aliases, Mid re-declares them (the effective
            # declarations), M only inherits and carries the Config
            import re as _re
            stale = [_re.sub(r"Alias\('([^']*)'\)", lambda m: "Alias('STALE_" + m.group(1) + "')",
                             _re.sub(r"alias='([^']*)'", lambda m: "alias='STALE_" + m.group(1) + "'", ln)) for ln in declared]
            base_cfg = []
            if rng.random() < 0.5:
                # PLAIN Config classes (not derived from BaseConfig) inheriting from each other: the derived one decides
                plain_cfg_chain = True
                inherit_forbid = rng.random() < 0.5
                base_cfg = ["    class Config:", f"        allow_deserialization_not_by_alias = {not allow}", f"        forbid_extra_keys = {forbid if inherit_forbid else (not forbid)}",
                            f"        aliases = {dict((f['name'], 'STALEC_' + f['name']) for f in fields)!r}"]
                config = ["    class Config(Base.Config):"] + config[1:]
                if inherit_forbid:
                    # an option the derived Config does not mention is the one it INHERITS
                    config = [c for c in config if "forbid_extra_keys" not in c]
                if not cfg_aliases:
                    config.append("        aliases = {}")
            if rng.random() < 0.4:
                # Mid re-annotates members WITHOUT a value: a fresh member (default found along the MRO, none of Base's metadata)
                bare = []
                for ln, f in zip(declared, fields):
                    if f["default"] and f["meta"] is None and "field(" in ln and "default=" in ln and "metadata=" not in ln:
                        bare.append(ln.split(" = field(")[0])
                        # Base keeps the default (the stale line carries it, with a stale alias in its metadata)
                    else:
                        bare.append(ln)
                if bare != declared:
                    stale = [(_re.sub(r" = field\(", " = field(metadata=field_options(alias='STALE_M'), ", s_, count=1) if b != d_ and "metadata=" not in s_ else s_)
                             for s_, b, d_ in zip(stale, bare, declared)]
                    declared = bare
                    rec.count("bare_reannotation_in_mid")
                    bare_direct = rng.random() < 0.6
            if stale_bases and locals().get("bare_direct"):
                # the class under test re-annotates the members itself
                lines = (["@dataclass", ("class Base(" + mixin_src + "):").replace("()", "")] + stale + base_cfg + ["@dataclass", "class M(Base):"] + declared + config + hook_lines)
            else:
                lines = (["@dataclass", ("class Base(" + mixin_src + "):").replace("()", "")] + stale + base_cfg + ["@dataclass", "class Mid(Base):"] + declared
                         + ["@dataclass", "class M(Mid):"] + config + hook_lines)
        else:
            lines = lines[:field_lines_at] + declared + config + hook_lines
        if discr:
            # the tagged subclass is what gets deserialized; it inherits the Config (and so the
            # class-level discriminator field, which forbid_extra_keys must accept)
            lines += ["@dataclass", "class Sub(M):", "    kind = 'M'"]
        src = "\n".join(lines) + "\n"
        defaults = {}
        DEF = []
        for i, f in enumerate(fields):
            w = TYPES[f["tk"]][1](50 + i)
            DEF.append(TYPES[f["tk"]][2](w))
        fam.module._DEF = DEF
        fam.module._CONV = [TYPES[f["tk"]][2] for f in fields]
        fam.exec_src("from mashumaro.jsonschema.annotations import Minimum, Maximum\n")
        try:
            fam.exec_src(src)
        except Exception as e:
            rec.violation(f"class-build:{type(e).__name__}", {"source": src, "error": f"{type(e).__name__}: {e}"[:300]}, {"stage": "build"})
            return
        M = fam.get("Sub" if discr else "M")
        mixin = hasattr(M, "from_dict")
        if discr and not mixin:
            rec.count("skipped_plain_discriminator")
            return
        dec = M.from_dict if mixin else BasicDecoder(M).decode
        # model
        for i, f in enumerate(fields):
            f["alias"] = f["meta"] if f["meta"] is not None else f["ann"] if f["ann"] is not None else f["cfg"]
            f["accepted"] = [f["alias"]] if f["alias"] is not None else [f["name"]]
            if allow and f["alias"] is not None:
                f["accepted"].append(f["name"])
            f["dflt"] = None if f.get("default_is_none") else DEF[i]
        allowed = set()
        for f in fields:
            allowed.update(f["accepted"])
        if discr:
            allowed.add("kind")
        cand = []
        for f in fields:
            for k in (f["name"], f["meta"], f["ann"], f["cfg"]):
                if k is not None and k not in cand:
                    cand.append(k)
        nonstr = rng.random() < 0.5
        for k in (("ni",) if noinit else ()) + ("None", "stranger") + (("kind",) if discr else ()) + ((7,) if nonstr else ()) + (("legacy", "hooked") if hook else ()):
            if k not in cand:
                cand.append(k)
        cand = cand[:11]
        cfg_sig = (hook, plain_cfg_chain, nonstr) + (tuple((f["tk"], f["default"], f["meta"], f["ann"], f["cfg"]) for f in fields), allow, forbid, discr, noinit, undecorated_root, stale_bases)
        sampled = False
        # each candidate key carries a value valid for every field type that may read it
        for mask in itertools.product([False, True], repeat=len(cand)):
            rec.evaluation()
            present0 = [k for p, k in zip(mask, cand) if p]
            # what the hook hands on: 'legacy' dropped, 'hooked' renamed to a stranger
            present = [("stranger2" if k == "hooked" else k) for k in present0 if not (hook and k == "legacy")] if hook else present0
            # value per key: must be decodable by whichever field reads it -> per-field wire chosen by reader
            # find readers first
            reader = {}
            for f in fields:
                for k in f["accepted"]:
                    if k in present:
                        reader.setdefault(k, f)
                        break
            d = {}
            nulls = set()
            for j, k in enumerate(present0):
                if hook and k in ("legacy", "hooked"):
                    d[k] = f"unread-{j}"
                    continue
                f = reader.get(k)
                d[k] = TYPES[f["tk"]][1](j) if f else f"unread-{j}"
                # an explicit null is a present key like any other (only where every possible reader is nullable)
                if f and f["tk"] in ("oint", "any") and rng.random() < 0.25 and all(
                        o["tk"] in ("oint", "any") for o in fields if k in o["accepted"]):
                    d[k] = None
                    nulls.add(k)
            if "kind" in d:
                d["kind"] = "M"
            if forbid and (set(present) - allowed):
                exp = ("extra", set(present) - allowed)
            else:
                exp = None
                res = {}
                for f in fields:
                    key = next((k for k in f["accepted"] if k in present), None)
                    if key is None:
                        if not f["default"]:
                            exp = ("missing", f["name"])
                            break
                        res[f["name"]] = f["dflt"]
                    else:
                        res[f["name"]] = None if key in nulls else TYPES[f["tk"]][2](d[key])
                if exp is None:
                    exp = ("ok", res)
            det = lambda **kw: dict({"source": src, "input": common.short(d, 300)}, **kw)
            facts = {"allow": allow, "forbid": forbid, "discriminator": discr, "none_key_present": "None" in present, "init_false_member": noinit, "pre_deserialize_hook": hook, "plain_config_chain": plain_cfg_chain, "non_string_key": 7 in present0, "config_on_undecorated_root": undecorated_root, "fields_redeclared_in_middle_class": stale_bases}
            try:
                if not hook and rng.random() < 0.15:
                    # a mapping that MANUFACTURES values for absent keys when subscripted: absent keys are still absent
                    import collections
                    arg = collections.defaultdict(lambda: 7, d)
                    r = dec(arg)
                    if dict(arg) != d:
                        rec.violation("keymodel-mismatch:input-mapping-grew", det(observed=common.short(dict(arg), 300)), dict(facts, defaultdict_input=True))
                    rec.count("defaultdict_inputs")
                else:
                    r = dec(dict(d))
                got = ("ok", {f["name"]: getattr(r, f["name"]) for f in fields})
            except ExtraKeysError as e:
                got = ("extra", set(e.extra_keys))
            except MissingField as e:
                got = ("missing", e.field_name)
            except Exception as e:
                got = ("exc", f"{type(e).__name__}: {e}"[:200])
            if discr and got[0] == "exc" and "SuitableVariantNotFound" in got[1]:
                # class-level discriminator without a registered variant for this tag: not a key-resolution outcome
                rec.count("discriminator_dispatch_skipped")
                continue
            if got == exp or (got[0] == exp[0] == "ok" and all(type(got[1][k]) is type(exp[1][k]) and got[1][k] == exp[1][k] for k in exp[1])):
                rec.count("agree_" + exp[0])
                rec.nontrivial((cfg_sig, mask))
                if not sampled and exp[0] == "ok" and len(present) >= 2:
                    sampled = True
                    rec.sample({"source": src, "input": common.short(d, 200), "outcome": common.short(got, 200)})
            else:
                rec.violation(f"keymodel-mismatch:{exp[0]}->{got[0]}", det(observed=common.short(got, 300), expected=common.short(exp, 300),
                              accepted={f["name"]: f["accepted"] for f in fields}), facts)
    finally:
        fam.dispose()
