"""C10 - the most specific customization wins."""
from __future__ import annotations

import itertools
import random

from ..family import Family
from . import common

LEVEL = "exploration"
RULE = ("universe of 14 simultaneous registrations for one field: field serialize/deserialize option, field "
        "serialization_strategy, and {call dialect, Config.dialect, Config.serialization_strategy, codec default_dialect}"
        " x {alias key (Annotated / NewType), exact type, generic origin}; the aliased type also as list element / dict value / Optional member of an (Annotated) outer type. A case enables a subset, with each registration "
        "randomly a dict strategy (both or one direction), a SerializationStrategy object or pass_through; the class is "
        "driven through mixin to_dict/from_dict (with and without dialect=), BasicEncoder/BasicDecoder(dataclass, "
        "default_dialect=) and as a nested field. Oracle: the marker carried by the output names the minimum of the "
        "enabled registrations ordered by (field options, key specificity, source); pass_through at the winning level "
        "returns the very object; no registration -> built-in rendering. quick samples subsets, thorough enumerates all "
        "2^11 mixin subsets and 2^14 codec subsets for one strategy style. distinct_nontrivial = distinct (entry point, "
        "type flavour, enabled subset, style vector) tuples.")
RULE += " Additions: parsing-engine names (ciso8601 / pendulum) as a registration style at every level, decided with a month-only input the built-in parser refuses."
ASSUMPTIONS = ["precedence as stated by the property: field option > field strategy > (key specificity, then call dialect > "
               "Config.dialect > Config.serialization_strategy > codec/format dialect) > built-in"]
BUDGET_S = {"quick": 150, "thorough": 1500}
MIN_EVENTS = {"quick": {"evaluations": 20000, "agree": 20000}, "thorough": {"evaluations": 400000, "agree": 400000}}

SOURCES = ["call", "cfgd", "cfgs", "dd"]
KEYS = ["alias", "exact", "origin"]
FLAVOURS = {
    # name: (field annotation, {key: source of the registered type}, sample value source, wire input source, builtin out, builtin in)
    "ann_list": ("AnnL", {"alias": "AnnL", "exact": "List[int]", "origin": "list"}, "[1, 2]", "[3]"),
    "newtype_list": ("MyL", {"alias": "MyL", "exact": "List[int]", "origin": "list"}, "[1, 2]", "[3]"),
    "ann_dict": ("AnnD", {"alias": "AnnD", "exact": "Dict[str, int]", "origin": "dict"}, "{'a': 1}", "{'b': 2}"),
    "ann_date": ("AnnDate", {"alias": "AnnDate", "exact": "datetime.date"}, "datetime.date(2020, 1, 2)", "'2020-01-02'"),
    "plain_list": ("List[int]", {"exact": "List[int]", "origin": "list"}, "[1, 2]", "[3]"),
    # a nullable member: the field's own options (engine names included) belong to the value inside the Optional
    "opt_date": ("Optional[datetime.date]", {"exact": "datetime.date"}, "datetime.date(2020, 1, 2)", "'2020-01-02'"),
    # Annotated with UNHASHABLE metadata: the alias itself cannot be a key, the exact type and the origin still are
    "ann_unhashable": ("Annotated[List[int], {'note': ['x']}]", {"exact": "List[int]", "origin": "list"}, "[1, 2]", "[3]"),
    "ann_unhashable_date": ("Annotated[datetime.date, ['meta']]", {"exact": "datetime.date"}, "datetime.date(2020, 1, 2)", "'2020-01-02'"),
    # the aliased type below another type (list element / Optional), the outer type itself Annotated or not: field-level
    # options belong to the whole field, so only the keyed registrations are in play
    "in_list": ("List[AnnDate]", {"alias": "AnnDate", "exact": "datetime.date"}, "[datetime.date(2020, 1, 2)]", "['2020-01-02']"),
    "in_ann_list": ("Annotated[List[AnnDate], 'outer']", {"alias": "AnnDate", "exact": "datetime.date"}, "[datetime.date(2020, 1, 2)]", "['2020-01-02']"),
    "in_ann_optional": ("Annotated[Optional[AnnDate], 'outer']", {"alias": "AnnDate", "exact": "datetime.date"}, "datetime.date(2020, 1, 2)", "'2020-01-02'"),
    "in_dict": ("Dict[str, AnnDate]", {"alias": "AnnDate", "exact": "datetime.date"}, "{'k': datetime.date(2020, 1, 2)}", "{'k': '2020-01-02'}"),
    # only used by the 'format' entry point: a type the msgpack format dialect itself customises (pass_through)
    "fmt_bytes": ("bytes", {"exact": "bytes"}, "b'ab'", "b'cd'"),
}
WRAP = {"in_list": "list", "in_ann_list": "list", "in_ann_optional": None, "in_dict": "dict"}


def unwrap(flavour, out):
    """(ok, element) - the element position the registrations apply to."""
    w = WRAP.get(flavour)
    if w == "list":
        return (isinstance(out, list) and len(out) == 1), (out[0] if isinstance(out, list) and len(out) == 1 else None)
    if w == "dict":
        return (isinstance(out, dict) and list(out) == ["k"]), (out["k"] if isinstance(out, dict) and "k" in out else None)
    return True, out


PRE = """
AnnL = Annotated[List[int], 'tag']
AnnD = Annotated[Dict[str, int], 'tag']
AnnDate = Annotated[datetime.date, 'tag']
MyL = NewType('MyL', List[int])

def mk_ser(tag):
    return lambda v: ('S', tag, v)

def mk_de(tag):
    return lambda v: ('D', tag, v)

class Strat(SerializationStrategy):
    def __init__(self, tag):
        self.tag = tag
    def serialize(self, v):
        return ('S', self.tag, v)
    def deserialize(self, v):
        return ('D', self.tag, v)
"""


def n_cases(tier):
    return 15000 if tier == "quick" else 300000


def worker_setup(tier, rec):
    return common.install_monitors(rec)


def worker_finish(tier, rec, st):
    common.finish_monitors(rec, st)


def strategy_src(tag, style):
    if style == "dict":
        return f"{{'serialize': mk_ser({tag!r}), 'deserialize': mk_de({tag!r})}}"
    if style == "dict_ser":
        return f"{{'serialize': mk_ser({tag!r})}}"
    if style == "dict_de":
        return f"{{'deserialize': mk_de({tag!r})}}"
    if style == "obj":
        return f"Strat({tag!r})"
    if style in ENGINES:
        return f"{{'deserialize': {ENGINES[style]!r}}}"     # a parsing-engine NAME instead of a callable (date types only)
    return "pass_through"


ENGINES = {"eng_ciso": "ciso8601", "eng_pend": "pendulum"}
DATE_FLAVOURS = ("ann_date", "ann_unhashable_date", "opt_date", "in_list", "in_ann_list", "in_ann_optional", "in_dict")
ENGINE_WIRE = "2020-01"      # accepted by both engines (first of the month), rejected by date.fromisoformat


def defines(style, direction):
    if style == "dict_ser":
        return direction == "S"
    if style == "dict_de" or style in ENGINES:
        return direction == "D"
    return True


def run_case(seed, tier, rec, st):
    from mashumaro.codecs.basic import BasicDecoder, BasicEncoder
    rng = random.Random(seed)
    fam = Family("c10")
    try:
        fam.exec_src(PRE)
        mod = fam.module
        entry = rng.choice(["mixin", "mixin", "codec", "nested", "format", "format-codec"])
        flavour = "fmt_bytes" if entry in ("format", "format-codec") else rng.choice([f for f in FLAVOURS if f != "fmt_bytes"])
        ann, keymap, val_src, wire_src = FLAVOURS[flavour]
        keys = [k for k in KEYS if k in keymap]
        universe = [("field_opt", None), ("field_strat", None)] if flavour not in WRAP else []
        srcs = [s for s in SOURCES if not (s == "dd" and entry not in ("codec", "format-codec")) and not (s == "call" and entry in ("codec", "format-codec"))]
        universe += [(s, k) for s in srcs for k in keys]
        p = rng.choice([0.15, 0.3, 0.5])
        enabled = [u for u in universe if rng.random() < p]
        styles = {}
        for u in enabled:
            if u[0] == "field_opt":
                styles[u] = rng.choice(["both", "ser", "de", "pt"])
            elif u[0] == "field_strat":
                styles[u] = rng.choice(["obj", "obj", "dict", "pass_through", "dict_ser", "dict_de"])
            else:
                styles[u] = rng.choice(["dict", "dict", "obj", "pass_through", "dict_ser", "dict_de"])
            if flavour in DATE_FLAVOURS and rng.random() < 0.2:
                styles[u] = rng.choice(list(ENGINES))
        engine_wire = any(v in ENGINES for v in styles.values())
        if engine_wire:
            wire_src = wire_src.replace("2020-01-02", ENGINE_WIRE)

        def reg(source):
            items = []
            for (s, k) in enabled:
                if s == source:
                    items.append(f"{keymap[k]}: {strategy_src(f'{s}:{k}', styles[(s, k)])}")
            return "{" + ", ".join(items) + "}"
        meta = []
        if ("field_opt", None) in enabled:
            stl = styles[("field_opt", None)]
            if stl == "pt":
                meta += ["serialize=pass_through", "deserialize=pass_through"]
            elif stl in ENGINES:
                meta.append(f"deserialize={ENGINES[stl]!r}")
            else:
                if stl in ("both", "ser"):
                    meta.append("serialize=mk_ser('field_opt')")
                if stl in ("both", "de"):
                    meta.append("deserialize=mk_de('field_opt')")
        if ("field_strat", None) in enabled:
            meta.append("serialization_strategy=" + strategy_src("field_strat", styles[("field_strat", None)]))
        use_cfgd = any(s == "cfgd" for s, _ in enabled)
        lines = ["class CallD(Dialect):", f"    serialization_strategy = {reg('call')}",
                 "class CfgD(Dialect):", f"    serialization_strategy = {reg('cfgd')}",
                 "class DD(Dialect):", f"    serialization_strategy = {reg('dd')}",
                 "@dataclass", "class M(" + ("DataClassMessagePackMixin" if entry == "format" else "DataClassDictMixin" if entry not in ("codec", "format-codec") else
                                               rng.choice(["", "", "DataClassDictMixin", "DataClassMessagePackMixin"])) + "):"]
        lines[-1] = lines[-1].replace("()", "")
        fargs = [f"default_factory=lambda: {val_src}"]
        if meta:
            fargs.append(f"metadata=field_options({', '.join(meta)})")
        three_levels = entry in ("mixin", "codec", "nested") and flavour not in WRAP and rng.random() < 0.25
        if three_levels:
            # the field is declared by a grand-parent with OTHER field options, re-declared by the parent (the effective
            # declaration) and only inherited by M
            mix = lines[-1][len("class M("):-2]
            lines[-1] = "class B0(" + mix + "):" if mix else "class B0:"
            lines.append(f"    x: {ann} = field(default_factory=lambda: {val_src}, metadata=field_options(serialize=mk_ser('STALE'), deserialize=mk_de('STALE')))")
            lines += ["@dataclass", "class B1(B0):", f"    x: {ann} = field({', '.join(fargs)})", "@dataclass", "class M(B1):"]
        else:
            lines.append(f"    x: {ann} = field({', '.join(fargs)})")
        self_child = entry == "mixin" and not three_levels and rng.random() < 0.3
        if self_child:
            # the same class one level down, through a Self-typed member: every level of customization applies there too
            lines.append("    nxt: Optional[Self] = None")
        lines.append("    class Config(BaseConfig):")
        lines.append(f"        serialization_strategy = {reg('cfgs')}")
        lines.append("        code_generation_options = [ADD_DIALECT_SUPPORT]")
        if use_cfgd:
            lines.append("        dialect = CfgD")
        if rng.random() < 0.15:
            lines.append("        lazy_compilation = True")
        if entry == "nested":
            lines += ["@dataclass", "class Outer(DataClassDictMixin):", "    inner: M = field(default_factory=M)",
                      "    class Config(BaseConfig):", "        code_generation_options = [ADD_DIALECT_SUPPORT]"]
        src = "\n".join(lines) + "\n"
        det = lambda **kw: dict({"source": src, "entry": entry, "enabled": [f"{s}:{k}" for s, k in enabled]}, **kw)
        facts = {"entry": entry, "flavour": flavour, "three_levels": three_levels, "self_child": self_child}
        try:
            fam.exec_src(src)
        except Exception as e:
            rec.violation(f"class-build:{type(e).__name__}", det(error=f"{type(e).__name__}: {e}"[:300]), dict(facts, stage="build"))
            return
        M = mod.M
        use_call = any(s == "call" for s, _ in enabled)
        kw = {"dialect": mod.CallD} if use_call else {}

        def winner(direction):
            def live(u):
                if u not in enabled:
                    return False
                stl = styles[u]
                if u[0] == "field_opt":
                    if stl in ENGINES:
                        return direction == "D"
                    return stl in ("both", "pt") or (stl == "ser" and direction == "S") or (stl == "de" and direction == "D")
                return defines(stl, direction)
            if live(("field_opt", None)):
                return ("field_opt", None)
            if live(("field_strat", None)):
                return ("field_strat", None)
            for k in keys:
                for s in srcs:
                    if live((s, k)):
                        return (s, k)
            return None
        value = eval(val_src, mod.__dict__)
        wire = eval(wire_src, mod.__dict__)
        if entry == "format":
            format_entry(rec, rng, mod, M, kw, winner, styles, value, wire, det, facts, enabled)
            return
        if entry == "format-codec":
            # msgpack codec objects: the user's default_dialect sits ABOVE the format dialect (bytes: pass_through)
            import msgpack
            from mashumaro.codecs.msgpack import MessagePackDecoder, MessagePackEncoder
            for direction in ("S", "D"):
                rec.evaluation()
                w = winner(direction)
                try:
                    if direction == "S":
                        out = msgpack.unpackb(MessagePackEncoder(M, default_dialect=mod.DD).encode(M(x=value)), raw=False)["x"]
                        given = value
                    else:
                        given = wire
                        out = MessagePackDecoder(M, default_dialect=mod.DD).decode(msgpack.packb({"x": wire}, use_bin_type=True)).x
                except Exception as e:
                    rec.violation(f"exception:format-codec:{direction}:{type(e).__name__}", det(error=f"{type(e).__name__}: {e}"[:300], expected_winner=repr(w)), facts)
                    continue
                if w is None or styles[w] in ("pt", "pass_through"):
                    ok = out == given and type(out) is bytes
                else:
                    tag = w[0] if w[1] is None else f"{w[0]}:{w[1]}"
                    ok = list(out) == [direction, tag, given] if isinstance(out, (list, tuple)) else False
                if ok:
                    rec.count("agree")
                    rec.nontrivial(("format-codec", tuple(sorted(map(str, enabled))), tuple(sorted((str(k), v) for k, v in styles.items())), direction))
                else:
                    rec.violation(f"wrong-level:format-codec:{direction}", det(direction=direction, expected_winner=repr(w), style=styles.get(w), observed=repr(out)[:120]), facts)
            return
        # ---- serialize
        for direction in ("S", "D"):
            rec.evaluation()
            w = winner(direction)
            try:
                if direction == "S":
                    obj = M(x=value)
                    if entry == "mixin" and self_child:
                        out = M(x=eval(val_src, mod.__dict__), nxt=obj).to_dict(**kw)["nxt"]["x"]
                    elif entry == "mixin":
                        out = obj.to_dict(**kw)["x"]
                    elif entry == "nested":
                        out = mod.Outer(inner=obj).to_dict(**kw)["inner"]["x"]
                    else:
                        out = BasicEncoder(M, default_dialect=mod.DD).encode(obj)["x"]
                else:
                    if entry == "mixin" and self_child:
                        out = M.from_dict({"x": eval(wire_src, mod.__dict__), "nxt": {"x": wire}}, **kw).nxt.x
                    elif entry == "mixin":
                        out = M.from_dict({"x": wire}, **kw).x
                    elif entry == "nested":
                        out = mod.Outer.from_dict({"inner": {"x": wire}}, **kw).inner.x
                    else:
                        out = BasicDecoder(M, default_dialect=mod.DD).decode({"x": wire}).x
            except Exception as e:
                if engine_wire and direction == "D" and w is None and type(e).__name__ in ("InvalidFieldValue", "ValueError"):
                    rec.count("agree")          # no registration in effect: the built-in parser refuses the month-only text
                    rec.count("engine_wire_refused_by_builtin")
                    continue
                rec.violation(f"exception:{direction}:{type(e).__name__}", det(error=f"{type(e).__name__}: {e}"[:300], expected_winner=repr(w)), facts)
                continue
            given = value if direction == "S" else wire
            if flavour in WRAP:
                shape_ok, out = unwrap(flavour, out)
                _, given = unwrap(flavour, given)
                if not shape_ok:
                    rec.violation(f"wrong-level:{direction}", det(direction=direction, expected_winner=repr(w), observed="container shape " + repr(out)[:100]), facts)
                    continue
            if w is None and engine_wire and direction == "D":
                ok, got_desc = False, "built-in parser accepted " + repr(out)[:100]
            elif w is not None and styles[w] in ENGINES:
                import datetime as _dt
                first = _dt.date(2020, 1, 1)
                if styles[w] == "eng_ciso":
                    ok = type(out) is _dt.date and out == first
                else:
                    ok = type(out).__module__.startswith("pendulum") and isinstance(out, _dt.date) and out == first
                got_desc = f"{type(out).__module__}.{type(out).__name__} {out!r}"[:120]
                rec.count("engine_name_wins")
            elif w is None:
                # built-in rendering
                exp_builtin = builtin(flavour, direction, given)
                ok = type(out) is type(exp_builtin) and out == exp_builtin
                got_desc = repr(out)[:120]
            else:
                stl = styles[w]
                tag = w[0] if w[1] is None else f"{w[0]}:{w[1]}"
                if stl in ("pt", "pass_through"):
                    ok = out is given
                    got_desc = "identity" if ok else repr(out)[:120]
                else:
                    ok = isinstance(out, tuple) and len(out) == 3 and out[0] == direction and out[1] == tag and out[2] is given
                    got_desc = repr(out)[:120]
            if ok:
                rec.count("agree")
                rec.nontrivial((entry, flavour, tuple(sorted(map(str, enabled))), tuple(sorted((str(k), v) for k, v in styles.items())), direction))
            else:
                rec.violation(f"wrong-level:{direction}", det(direction=direction, expected_winner=repr(w), style=styles.get(w), observed=got_desc,
                                                               call_dialect=use_call), facts)
        rec.sample({"entry": entry, "flavour": flavour, "enabled": [f"{s}:{k}" for s, k in enabled],
                    "styles": {f"{s}:{k}": v for (s, k), v in styles.items()}}) if len(enabled) >= 3 else None
    finally:
        fam.dispose()


def format_entry(rec, rng, mod, M, kw, winner, styles, value, wire, det, facts, enabled):
    """msgpack mixin: the format dialect (bytes: pass_through) is the lowest level for to_msgpack/from_msgpack and
    must not exist for to_dict/from_dict; both families are called on the same class, with the same dialect, in
    random order (the per-dialect compiled methods are cached per format)."""
    import base64
    ident = lambda x, **k: x
    calls = [("to_msgpack", "S"), ("to_dict", "S"), ("from_msgpack", "D"), ("from_dict", "D")]
    rng.shuffle(calls)
    for name, direction in calls:
        rec.evaluation()
        w = winner(direction)
        try:
            if name == "to_msgpack":
                out = M(x=value).to_msgpack(encoder=ident, **kw)["x"]
                given = value
            elif name == "to_dict":
                out = M(x=value).to_dict(**kw)["x"]
                given = value
            elif name == "from_msgpack":
                given = wire
                out = M.from_msgpack({"x": given}, decoder=ident, **kw).x
            else:
                given = base64.encodebytes(wire).decode() if w is None else wire
                out = M.from_dict({"x": given}, **kw).x
        except Exception as e:
            rec.violation(f"exception:{name}:{type(e).__name__}", det(error=f"{type(e).__name__}: {e}"[:300], expected_winner=repr(w), order=[c[0] for c in calls]), facts)
            continue
        if w is None:
            if name == "to_msgpack" or name == "from_msgpack":
                ok = out is given            # format dialect: bytes pass through
            elif name == "to_dict":
                ok = out == base64.encodebytes(value).decode() and type(out) is str
            else:
                ok = out == wire and type(out) is bytes
        else:
            stl = styles[w]
            tag = w[0] if w[1] is None else f"{w[0]}:{w[1]}"
            if stl in ("pt", "pass_through"):
                ok = out is given
            else:
                ok = isinstance(out, tuple) and len(out) == 3 and out[0] == direction and out[1] == tag and out[2] is given
        if ok:
            rec.count("agree")
            rec.nontrivial(("format", name, tuple(sorted(map(str, enabled))), tuple(c[0] for c in calls)))
        else:
            rec.violation(f"wrong-level:format:{name}", det(call=name, order=[c[0] for c in calls], expected_winner=repr(w),
                                                           observed=repr(out)[:120]), facts)


def builtin(flavour, direction, given):
    import datetime
    if flavour in ("ann_date", "ann_unhashable_date", "opt_date") or flavour in WRAP:
        return given.isoformat() if direction == "S" else datetime.date.fromisoformat(given)
    if flavour == "ann_dict":
        return dict(given)
    return list(given)
