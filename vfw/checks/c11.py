"""C11 - Union, Optional and Literal resolution is deterministic and never swallows data."""
from __future__ import annotations

import random

from .. import tast
from ..family import Family
from ..gen import TypeGen
from ..hostile import junk_pool
from ..ref import Ref, RefError, Ctx, deep_eq, match, plain, only_basic
from ..values import Gen
from . import common

LEVEL = "exploration"
RULE = ("case = random union of 2-4 members in ARBITRARY declaration order over basic scalars, converted scalars (date, "
        "datetime, UUID, Decimal, timedelta, enums, paths), containers, dataclasses, NamedTuples, Literals and None, also as "
        "Optional[Union], nested in containers (list, dict, deque, variable and fixed tuples, themselves Optional / defaulting to None), and as constrained TypeVar; plus bare Literal types (incl. True/1, '1'/1, "
        "bytes, enum members). Inputs per union: every member's valid wire forms, cross-type scalars, None, junk pool. "
        "Oracle decode: outcome == REF_UNION_DECODE(U, d) incl. the raise case, via codec and dataclass field "
        "(InvalidFieldValue). Oracle encode: encode_U(v) == encode_member(v) for values generated from a known member. "
        "distinct_nontrivial = distinct (union shape, input fingerprint) pairs.")
ASSUMPTIONS = ["REF_UNION_DECODE: one declaration-order pass (basic scalars by exact type, others by try), then scalar coercions "
               "in declaration order; a null member matches only null (DESIGN §3.1)",
               "Literal matching uses Python equality and returns the listed constant"]
BUDGET_S = {"quick": 150, "thorough": 1200}
MIN_EVENTS = {"quick": {"evaluations": 60000, "decode_agree_return": 20000, "decode_agree_raise": 8000, "encode_agree": 8000},
              "thorough": {"evaluations": 1500000, "decode_agree_return": 500000, "decode_agree_raise": 200000, "encode_agree": 200000}}

SCALAR_MEMBERS = [("int",), ("float",), ("bool",), ("str",), ("none",)]
CONV_MEMBERS = [("date",), ("datetime",), ("uuid",), ("decimal",), ("timedelta",), ("time",), ("fraction",),
                ("path", "PurePosixPath"), ("ip", "IPv4Address"), ("bytes",), ("timezone",)]


def n_cases(tier):
    return 5000 if tier == "quick" else 120000


def worker_setup(tier, rec):
    return common.install_monitors(rec)


def worker_finish(tier, rec, st):
    common.finish_monitors(rec, st)


def gen_union(tg, rng):
    n = rng.randint(2, 4)
    members = []
    tries = 0
    while len(members) < n and tries < 20:
        tries += 1
        x = rng.random()
        if x < 0.4:
            m = rng.choice(SCALAR_MEMBERS)
        elif x < 0.6:
            m = rng.choice(CONV_MEMBERS)
        elif x < 0.66:
            m = tg.enum()
        elif x < 0.78:
            m = rng.choice([("seq", "List", ("int",)), ("seq", "List", ("str",)), ("seq", "list", ("date",)),
                            ("map", "Dict", ("str",), ("int",)), ("map", "dict", ("str",), ("date",)),
                            ("vtuple", "Tuple", ("int",)), ("seq", "Set", ("str",)), ("seq", "FrozenSet", ("int",)),
                            ("tuple", "Tuple", (("int",), ("str",)))])
        elif x < 0.86:
            m = tg.dataclass(0, min_required=1, nfields=rng.randint(1, 2), config={})
        elif x < 0.9:
            m = tg.named_tuple(0)
        elif x < 0.96:
            m = tg.literal()
        else:
            m = ("any",)
        if m not in members and m != ("any",):
            members.append(m)
    if len(members) < 2:
        members = [("int",), ("str",)]
    return tuple(members)


def run_case(seed, tier, rec, st):
    from mashumaro.codecs.basic import BasicDecoder, BasicEncoder
    from mashumaro.exceptions import InvalidFieldValue
    rng = random.Random(seed)
    fam = Family("c11")
    try:
        tg = TypeGen(fam, rng)
        tg.lit_conflate = True
        tg.allow_self = False
        kind = rng.random()
        if kind < 0.12:
            t = tg.literal()
            members = None
        elif kind < 0.2:
            # the two-member Optional[X] proper (as a field it often carries a falsy, non-None default)
            t = ("opt", rng.choice([("int",), ("str",), ("bool",), ("float",), ("decimal",), ("timedelta",), ("fraction",), ("date",), ("uuid",)]),
                 rng.choice(["Optional", "Optional", "union", "union_first"]))
            members = None
        else:
            members = gen_union(tg, rng)
            style = "pipe" if (rng.random() < 0.15 and tg._all_pipe_ok(list(members))) else "Union"
            t = ("union", members, style)
            w = rng.random()
            if w < 0.1 and ("none",) not in members:
                t = ("opt", t, "Optional")
            elif w < 0.2:
                t = ("seq", "List", t)
            elif w < 0.27:
                t = ("map", "Dict", ("str",), t)
            elif w < 0.32:
                tvn = tg.fresh("TV")
                if all(m[0] not in ("lit", "none") for m in members):
                    fam.add({"k": "typevar", "name": tvn, "constraints": list(members)})
                    t = ("tv", tvn)
            elif w < 0.40:
                t = ("vtuple", rng.choice(["Tuple", "tuple"]), t)
            elif w < 0.45:
                t = ("tuple", "Tuple", [t, ("int",)])
            elif w < 0.48:
                t = ("seq", "Deque", t)
            # the container itself optional (the enclosing position then already knows the value is not None)
            if t[0] in ("seq", "map", "vtuple", "tuple") and rng.random() < 0.4:
                t = ("opt", t, "Optional")
        ref = Ref(fam)
        tt = common.eval_type(fam, t)
        t = common.align_unions(fam, t, tt)      # typing's alias cache may hand back another member order
        try:
            enc, dec = BasicEncoder(tt), BasicDecoder(tt)
        except Exception as e:
            rec.violation(f"codec-build:{type(e).__name__}", {"type": tast.render(t), "error": str(e)[:300], "family": fam.to_json()}, {"stage": "build"})
            return
        wname = tg.fresh("W")
        wx = {"n": "x", "t": t}
        FALSY = {"int": 0, "str": "", "bool": False, "float": 0.0, "decimal": __import__("decimal").Decimal(0),
                 "timedelta": __import__("datetime").timedelta(0), "fraction": __import__("fractions").Fraction(0)}
        if t[0] == "opt" and tast.strip(t[1])[0] in FALSY and rng.random() < 0.6:
            # nullable field whose default is falsy but not None: an explicit null is still a value
            wx.update(dmode="default", dseed=0, const_default=FALSY[tast.strip(t[1])[0]])
        elif t[0] == "opt" and rng.random() < 0.5:
            wx.update(dmode="default", dseed=0, const_default=None)
        fam.add({"k": "dc", "name": wname, "bases": [], "mixin": "DataClassDictMixin", "fields": [wx]}, tg.value_maker)
        W = fam.get(wname)
        # the same members in the opposite declaration order, as a sibling field of one class (typing treats the two
        # unions as equal; the library must still try each in its own order)
        pair = None
        if t[0] == "union" and len(t[1]) >= 2 and rng.random() < 0.5:
            t_rev = ("union", tuple(reversed(t[1])), "Union")
            try:
                live_rev = common.eval_type(fam, t_rev)
                if live_rev is not tt:
                    t_rev = common.align_unions(fam, t_rev, live_rev)
                    pname = tg.fresh("P")
                    fam.add({"k": "dc", "name": pname, "bases": [], "mixin": "DataClassDictMixin",
                             "fields": [{"n": "a", "t": t}, {"n": "b", "t": t_rev}]}, tg.value_maker)
                    pair = (fam.get(pname), t_rev)
            except Exception:
                pair = None
        vg = Gen(fam, rng)
        facts0 = {"type_kinds": sorted({n[0] for n in common.deep_nodes(fam, t)}), "union_copy_shortcut": common.union_copy_fact(fam, t)}
        # ---------------- encode: member values
        valid_docs = []
        for j in range(6 if tier == "quick" else 12):
            v = vg.value(t, 2)
            rec.evaluation()
            try:
                exp = ref.enc(t, v, Ctx())
            except RefError:
                rec.count("ref_encode_undefined")
                continue
            for rname, fn in (("codec", lambda: enc.encode(v)), ("field", lambda: W(v).to_dict()["x"])):
                try:
                    out = fn()
                except Exception as ex:
                    rec.violation(f"encode:{rname}:exception:{type(ex).__name__}", {"type": tast.render(t), "value": common.short(v),
                                  "error": f"{type(ex).__name__}: {ex}"[:300], "family": fam.to_json()}, dict(facts0, encoded_only_basic=None, **str_packer_fact(ref, t, v)))
                    continue
                if match(out, exp):
                    rec.count("encode_agree")
                    if rname == "codec":
                        valid_docs.append(out)
                else:
                    rec.violation(f"encode:{rname}:differs-from-member-encoding:{type(v).__name__}-rendered-as-{type(out).__name__}", {"type": tast.render(t), "value": common.short(v),
                                  "observed": common.short(out, 300), "expected": common.short(plain(exp), 300), "family": fam.to_json()},
                                  dict(facts0, encoded_only_basic=only_basic(out), **str_packer_fact(ref, t, v)))
        # ---------------- decode: valid docs, cross-type scalars, junk
        inputs = list(valid_docs)
        inputs += [True, False, 0, 1, 1.0, -2.5, "12", "1.5", "a", "", None, "2020-01-02", "true", [], {}, [1], ["a"], {"a": 1}, b"x"]
        inputs += rng.sample(junk_pool(), 8)
        for d in inputs:
            rec.evaluation()
            try:
                exp = ("ok", ref.dec(t, d, Ctx()))
            except RefError as e:
                exp = ("raise", e)
            for rname, fn in (("codec", lambda: dec.decode(d)), ("field", lambda: W.from_dict({"x": d}).x)):
                try:
                    got = ("ok", fn())
                except Exception as ex:
                    got = ("raise", ex)
                if got[0] == "raise" and exp[0] == "raise":
                    ex = got[1]
                    if rname == "field" and not isinstance(ex, InvalidFieldValue):
                        rec.violation(f"decode:field:undocumented-exception:{type(ex).__name__}", {"type": tast.render(t), "input": common.short(d), "error": str(ex)[:200]}, facts0)
                    else:
                        rec.count("decode_agree_raise")
                    continue
                if got[0] == "ok" and exp[0] == "ok" and deep_eq(got[1], exp[1], key_order=False):
                    rec.count("decode_agree_return")
                    continue
                facts = dict(facts0, explained_by=explained_by(fam, t, d, got))
                det = {"type": tast.render(t), "route": rname, "input": common.short(d, 300),
                       "observed": common.short(got[1], 300) if got[0] == "ok" else f"raise {type(got[1]).__name__}: {got[1]}"[:300],
                       "expected": common.short(exp[1], 300) if exp[0] == "ok" else f"raise ({exp[1]})"[:300], "family": fam.to_json()}
                o = type(got[1]).__name__ if got[0] == "ok" else "raise"
                e_ = type(exp[1]).__name__ if exp[0] == "ok" else "raise"
                rec.violation(f"decode:{rname}:{type(d).__name__}-input:expected-{e_}:observed-{o}", det, facts)
            if pair is not None and exp[0] == "ok":
                P, t_rev = pair
                rec.evaluation()
                try:
                    exp_b = ("ok", ref.dec(t_rev, d, Ctx()))
                except RefError as e:
                    exp_b = ("raise", e)
                try:
                    got_b = ("ok", P.from_dict({"a": d, "b": d}).b)
                except Exception as ex:
                    got_b = ("raise", ex)
                if got_b[0] == exp_b[0] and (got_b[0] == "raise" or deep_eq(got_b[1], exp_b[1], key_order=False)):
                    rec.count("decode_agree_return" if got_b[0] == "ok" else "decode_agree_raise")
                    rec.count("sibling_union_reversed_order_agree")
                else:
                    rec.violation(f"decode:sibling-union-in-reversed-order:{type(d).__name__}-input", {"type": tast.render(t), "reversed": tast.render(t_rev),
                                  "input": common.short(d, 300), "observed": common.short(got_b[1], 300) if got_b[0] == "ok" else f"raise {type(got_b[1]).__name__}",
                                  "expected": common.short(exp_b[1], 300) if exp_b[0] == "ok" else "raise", "family": fam.to_json()},
                                  dict(facts0, explained_by=explained_by(fam, t_rev, d, got_b)))
            rec.nontrivial((tast.shape_hash(t), repr(d)[:120]))
        rec.sample({"type": tast.render(t), "inputs": [common.short(x, 60) for x in inputs[:6]]})
    finally:
        fam.dispose()


def explained_by(fam, t, d, got):
    for q in ("F02", "F24"):
        qref = Ref(fam, quirks=(q,))
        try:
            e = ("ok", qref.dec(t, d, Ctx()))
        except RefError as ex:
            e = ("raise", ex)
        if e[0] != got[0]:
            continue
        if e[0] == "raise" or deep_eq(got[1], e[1], key_order=False):
            return q
    return None


BASIC_KINDS = ("int", "float", "bool", "str", "none")


def str_packer_fact(ref, t, v):
    """F20 mechanism fact: in the union the value sits in, a non-basic member is declared BEFORE the member the value
    belongs to (the union serializer takes the first member whose packer does not raise)."""
    return {"earlier_nonscalar_member_before_value_member": earlier_member(ref, t, v)}


earlier_member = common.earlier_member
