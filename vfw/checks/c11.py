"""C11 - Union, Optional and Literal resolution is deterministic and never swallows data."""
from __future__ import annotations

import random

from .. import tast
from ..family import Family
from ..gen import TypeGen
from ..hostile import junk_pool
from ..ref import Ref, RefError, Ctx, deep_eq, match, plain, only_basic
from ..values import Gen
from . import common

LEVEL = "exploration"
RULE = ("case = random union of 2-4 members in ARBITRARY declaration order over basic scalars, converted scalars (date, "
        "datetime, UUID, Decimal, timedelta, enums, paths), containers, dataclasses, NamedTuples, Literals and None, also as "
        "Optional[Union], nested in containers (list, dict, deque, variable and fixed tuples, themselves Optional / defaulting to None), and as constrained TypeVar; plus bare Literal types (incl. True/1, '1'/1, "
        "bytes, enum members). Inputs per union: every member's valid wire forms, cross-type scalars, None, junk pool. "
        "Oracle decode: outcome == REF_UNION_DECODE(U, d) incl. the raise case, via codec and dataclass field "
        "(InvalidFieldValue). Oracle encode: encode_U(v) == encode_member(v) for values generated from a known member. "
        "distinct_nontrivial = distinct (union shape, input fingerprint) pairs.")
RULE += " Additions: members refusing with exceptions of their own making; nullable root shapes of codecs with a wire decoder; NamedTuple members of union fields with an engine option; F20 attributed only where the document equals the rendering by the first earlier member that does not raise."
ASSUMPTIONS = ["REF_UNION_DECODE: one declaration-order pass (basic scalars by exact type, others by try), then scalar coercions "
               "in declaration order; a null member matches only null (DESIGN §3.1)",
               "Literal matching uses Python equality and returns the listed constant"]
BUDGET_S = {"quick": 150, "thorough": 1200}
MIN_EVENTS = {"quick": {"evaluations": 60000, "decode_agree_return": 20000, "decode_agree_raise": 8000, "encode_agree": 8000},
              "thorough": {"evaluations": 1500000, "decode_agree_return": 500000, "decode_agree_raise": 200000, "encode_agree": 200000}}

SCALAR_MEMBERS = [("int",), ("float",), ("bool",), ("str",), ("none",)]
CONV_MEMBERS = [("date",), ("datetime",), ("uuid",), ("decimal",), ("timedelta",), ("time",), ("fraction",),
                ("path", "PurePosixPath"), ("ip", "IPv4Address"), ("bytes",), ("timezone",)]


def n_cases(tier):
    return 5000 if tier == "quick" else 400000


def worker_setup(tier, rec):
    return common.install_monitors(rec)


def worker_finish(tier, rec, st):
    common.finish_monitors(rec, st)


def gen_union(tg, rng):
    n = rng.randint(2, 4)
    members = []
    tries = 0
    while len(members) < n and tries < 20:
        tries += 1
        x = rng.random()
        if x < 0.4:
            m = rng.choice(SCALAR_MEMBERS)
        elif x < 0.6:
            m = rng.choice(CONV_MEMBERS)
        elif x < 0.66:
            m = tg.enum()
        elif x < 0.78:
            m = rng.choice([("seq", "List", ("int",)), ("seq", "List", ("str",)), ("seq", "list", ("date",)),
                            ("map", "Dict", ("str",), ("int",)), ("map", "dict", ("str",), ("date",)),
                            ("vtuple", "Tuple", ("int",)), ("seq", "Set", ("str",)), ("seq", "FrozenSet", ("int",)),
                            ("tuple", "Tuple", (("int",), ("str",)))])
        elif x < 0.86:
            m = tg.dataclass(0, min_required=1, nfields=rng.randint(1, 2), config={})
        elif x < 0.9:
            m = tg.named_tuple(0)
        elif x < 0.96:
            m = tg.literal()
        else:
            m = ("any",)
        if m not in members and m != ("any",):
            members.append(m)
    if len(members) < 2:
        members = [("int",), ("str",)]
    return tuple(members)


SPECIAL_PRE = """
class Refused(Exception):
    pass

class Pt(NamedTuple):
    x: int
    y: int

class Tok(SerializableType):
    def __init__(self, v):
        self.v = v
    def __eq__(self, o):
        return type(o) is Tok and o.v == self.v
    def _serialize(self):
        return 'tok:' + self.v
    @classmethod
    def _deserialize(cls, value):
        if not (isinstance(value, str) and value.startswith('tok:')):
            raise Refused('not a token')
        return cls(value[4:])
"""


def special_cases(rng, tier, rec, fam):
    """hand-shaped corners of the same rules: (A) a member that refuses an input with an exception of its own making is
    just a member that does not accept; (B) a nullable shape at the ROOT of a codec with a wire decoder in front;
    (C) a NamedTuple member of a union field that carries an engine option."""
    import json
    from mashumaro.codecs.basic import BasicDecoder, BasicEncoder
    fam.exec_src(SPECIAL_PRE)
    mod = fam.module
    which = rng.choice("ABCDE")
    det = lambda **kw: dict({"scenario": which}, **kw)

    def check(label, fn, expected, src=""):
        rec.evaluation()
        try:
            got = fn()
        except Exception as e:
            got = e
        ok = (not isinstance(got, Exception)) and type(got) is type(expected) and got == expected
        if ok:
            rec.count("special_agree")
            rec.count(f"special_agree:{which}")
            rec.nontrivial(("special", which, label))
        else:
            rec.violation(f"special:{which}:{label.split('|')[0]}", det(label=label, observed=f"{type(got).__name__}: {got!r}"[:300], expected=repr(expected)[:200], source=src),
                          {"scenario": "special-" + which})
    if which == "A":
        how = rng.choice(["raise Refused('negative')", "assert False, 'negative'", "raise RuntimeError('negative')", "raise OSError('negative')",
                          "raise StopIteration", "raise re.error('negative')"])
        where = rng.choice(["__post_init__", "__post_deserialize__"])
        if where == "__post_init__":
            hook = f"    def __post_init__(self):\n        if self.n < 0:\n            {how}\n"
        else:
            hook = f"    @classmethod\n    def __post_deserialize__(cls, obj):\n        if obj.n < 0:\n            {how}\n        return obj\n"
        mixin = "(DataClassDictMixin)" if where == "__post_deserialize__" or rng.random() < 0.5 else ""
        src = (f"@dataclass\nclass Strict{mixin}:\n    n: int\n{hook}"
               f"@dataclass\nclass Loose{mixin}:\n    n: int\n    note: str = ''\n"
               "@dataclass\nclass H(DataClassDictMixin):\n    u: Union[Strict, Loose]\n    p: Union[re.Pattern, str] = ''\n    t: Union[Tok, int, str] = 0\n"
               "    l: List[Union[Strict, Loose]] = field(default_factory=list)\n")
        fam.exec_src(src)
        H, Strict, Loose, Tok = mod.H, mod.Strict, mod.Loose, mod.Tok
        check("field|accepted-by-first", lambda: H.from_dict({"u": {"n": 1}}).u, Strict(1), src)
        check("field|refused-by-first", lambda: H.from_dict({"u": {"n": -1}}).u, Loose(-1), src)
        check("list|refused-by-first", lambda: H.from_dict({"u": {"n": 1}, "l": [{"n": -2}, {"n": 2}]}).l, [Loose(-2), Strict(2)], src)
        dec = BasicDecoder(eval("Union[Strict, Loose]", mod.__dict__))
        check("codec|refused-by-first", lambda: dec.decode({"n": -1}), Loose(-1), src)
        check("codec|accepted-by-first", lambda: dec.decode({"n": 3}), Strict(3), src)
        check("pattern|invalid-regex-is-a-string", lambda: H.from_dict({"u": {"n": 1}, "p": "("}).p, "(", src)
        check("pattern|valid-regex", lambda: H.from_dict({"u": {"n": 1}, "p": "a+"}).p.pattern, "a+", src)
        check("serializable|own-error-means-next-member", lambda: H.from_dict({"u": {"n": 1}, "t": "plain"}).t, "plain", src)
        check("serializable|accepted", lambda: H.from_dict({"u": {"n": 1}, "t": "tok:z"}).t, Tok("z"), src)
        check("serializable|int-member-exact", lambda: H.from_dict({"u": {"n": 1}, "t": 5}).t, 5, src)
    elif which == "B":
        import datetime
        import msgpack
        import yaml
        from mashumaro.codecs.json import JSONDecoder
        from mashumaro.codecs.yaml import YAMLDecoder
        from mashumaro.codecs.msgpack import MessagePackDecoder
        from mashumaro.codecs.orjson import ORJSONDecoder
        fam.exec_src("@dataclass\nclass Dc:\n    n: int = 0\n")
        inner_src, val, wire = rng.choice([("datetime.date", datetime.date(2020, 1, 2), "2020-01-02"), ("str", "s", "s"), ("bool", True, True), ("int", 5, 5),
                                          ("List[int]", [1], [1]), ("Dict[str, int]", {"a": 1}, {"a": 1}), ("Dc", mod.Dc(3), {"n": 3}),
                                          ("float", 1.5, 1.5), ("Pt", mod.Pt(1, 2), [1, 2])])
        shape_src = rng.choice(["Optional[{t}]", "Optional[{t}]", "Union[{t}, None]", "Union[None, {t}]", "Union[{t}, bytes, None]", "Optional[Annotated[{t}, 'm']]"]).format(t=inner_src)
        T = eval(shape_src, mod.__dict__)
        decs = [("json", lambda: JSONDecoder(T), json.dumps), ("yaml", lambda: YAMLDecoder(T), yaml.safe_dump), ("orjson", lambda: ORJSONDecoder(T), lambda x: json.dumps(x).encode()),
                ("msgpack", lambda: MessagePackDecoder(T), lambda x: msgpack.packb(x, use_bin_type=True)),
                ("basic+pre_decoder", lambda: BasicDecoder(T, pre_decoder_func=json.loads), json.dumps), ("basic", lambda: BasicDecoder(T), lambda x: x)]
        for name, mk, dump in decs:
            try:
                d = mk()
            except Exception as e:
                rec.violation(f"special:B:codec-build:{type(e).__name__}", det(shape=shape_src, codec=name, error=str(e)[:200]), {"scenario": "special-B"})
                continue
            for lab, doc, exp in (("null", None, None), ("value", wire, val)):
                rec.evaluation()
                try:
                    got = d.decode(dump(doc))
                except Exception as e:
                    got = e
                if (exp is None and got is None) or (exp is not None and type(got) is type(exp) and got == exp):
                    rec.count("special_agree")
                    rec.count("special_agree:B")
                    rec.nontrivial(("special", "B", shape_src, name, lab))
                else:
                    rec.violation(f"special:B:root-{lab}:{name}", det(shape=shape_src, codec=name, document=repr(dump(doc))[:80], observed=f"{type(got).__name__}: {got!r}"[:200], expected=repr(exp)),
                                  {"scenario": "special-B"})
    elif which == "E":
        # scalar members that are not spelled as the builtin itself: NewType, PEP 695 alias, LiteralString, Annotated
        src = ("from typing_extensions import LiteralString\nUserId = NewType('UserId', int)\ntype Cnt = int\ntype Txt = str\n"
               "@dataclass\nclass HS(DataClassDictMixin):\n    a: Union[UserId, str] = 0\n    b: Union[Cnt, str] = 0\n    c: Union[LiteralString, int] = 0\n"
               "    d: Union[Annotated[int, 'm'], str, None] = None\n    e: Union[Txt, float] = 0.0\n    f: List[Union[UserId, None, float]] = field(default_factory=list)\n")
        fam.exec_src(src)
        HS = mod.HS
        for fld, cases in (("a", [(5, 5), ("x", "x"), (True, 1), (1.5, 1)]), ("b", [(5, 5), ("x", "x"), (1.5, 1)]), ("c", [("s", "s"), (7, 7), (1.5, "1.5")]),
                           ("d", [(3, 3), ("t", "t"), (None, None)]), ("e", [("t", "t"), (2.5, 2.5), (3, "3")])):
            for wire, want in cases:
                check(f"decode|{fld}|{type(wire).__name__}", lambda fld=fld, wire=wire: getattr(HS.from_dict({fld: wire}), fld), want, src)
        check("decode|f|list", lambda: HS.from_dict({"f": [1, None, 2.5]}).f, [1, None, 2.5], src)
        check("codec|newtype-member", lambda: BasicDecoder(eval("Union[UserId, str]", mod.__dict__)).decode("q"), "q", src)
        check("encode|newtype-member", lambda: HS(a=5, b="x").to_dict()["a"], 5, src)
    elif which == "D":
        # recursive PEP 695 aliases: every level of the nesting is resolved by the same member rules, with the same flags
        flags = rng.choice(["", "TO_DICT_ADD_OMIT_NONE_FLAG, TO_DICT_ADD_BY_ALIAS_FLAG"])
        cfg = f"    class Config(BaseConfig):\n        code_generation_options = [{flags}]\n" if flags else ""
        src = ("type Num = int | float\ntype Tree = Num | list[Tree]\ntype Flat = int | float | list[Flat]\ntype STree = int | str | list[STree]\n"
               "@dataclass\nclass Leaf(DataClassDictMixin):\n    v: int = 0\n    note: Optional[str] = None\n    al: int = field(default=1, metadata=field_options(alias='AL'))\n" + cfg +
               "type LTree = Leaf | list[LTree]\n"
               "@dataclass\nclass HR(DataClassDictMixin):\n    flat: Flat = 0\n    st: STree = 0\n    lt: LTree = field(default_factory=list)\n" + cfg +
               "@dataclass\nclass HT(DataClassDictMixin):\n    t: Tree = 0\n")
        fam.exec_src(src)
        HR, Leaf, HT = mod.HR, mod.Leaf, mod.HT
        nested = [1, [2.5, [3, []]]]
        check("decode|flat-members", lambda: HR.from_dict({"flat": nested}).flat, nested, src)
        check("decode|alias-of-union-member", lambda: HT.from_dict({"t": nested}).t, nested, src)
        check("decode|str-member-exact-at-depth", lambda: HR.from_dict({"st": ["a", [1, ["b", 2]]]}).st, ["a", [1, ["b", 2]]], src)
        check("decode|dataclass-leaves", lambda: HR.from_dict({"lt": [{"v": 1}, [{"v": 2}, [{"v": 3}]]]}).lt, [Leaf(1), [Leaf(2), [Leaf(3)]]], src)
        check("codec|alias-of-union-member", lambda: BasicDecoder(eval("Tree", mod.__dict__)).decode(nested), nested, src)
        check("encode|flat-members", lambda: HR(flat=nested).to_dict()["flat"], nested, src)
        check("encode|dataclass-leaves", lambda: HR(lt=[Leaf(1), [Leaf(2)]]).to_dict()["lt"], [{"v": 1, "note": None, "al": 1}, [{"v": 2, "note": None, "al": 1}]], src)
        if flags:
            check("encode|flags-reach-every-depth", lambda: HR(lt=[Leaf(1), [Leaf(2, "n")]]).to_dict(omit_none=True, by_alias=True)["lt"], [{"v": 1, "AL": 1}, [{"v": 2, "note": "n", "AL": 1}]], src)
        # the alias-of-union member on the WRITING side (finding F57 on the pinned tree)
        rec.evaluation()
        try:
            got = HT(t=nested).to_dict()["t"]
        except Exception as e:
            got = e
        if got == nested:
            rec.count("special_agree")
        else:
            rec.violation("special:D:encode-alias-of-union-member-in-a-recursive-union", det(observed=f"{type(got).__name__}: {got!r}"[:200], expected=repr(nested), source=src),
                          {"scenario": "special-D", "recursive_alias_with_alias_of_union_member": True, "exc": type(got).__name__ if isinstance(got, Exception) else None})
    else:
        eng = rng.choice(["as_dict", "as_list"])
        cfg_nt = rng.random() < 0.5
        ann = rng.choice(["Union[Pt, str]", "Union[str, Pt]", "Optional[Union[Pt, str]]", "Union[Pt, None, int]", "Union[int, Tuple[Pt, int]]"])
        src = (f"@dataclass\nclass HN(DataClassDictMixin):\n    u: {ann} = field(metadata=field_options(serialize={eng!r}, deserialize={eng!r}))\n    plain: Union[Pt, str] = ''\n"
               + ("    class Config(BaseConfig):\n        namedtuple_as_dict = True\n" if cfg_nt else ""))
        fam.exec_src(src)
        HN, Pt = mod.HN, mod.Pt
        tup = "Tuple[Pt" in ann
        v = (Pt(1, 2), 7) if tup else Pt(1, 2)
        as_dict = eng == "as_dict"
        enc_pt = {"x": 1, "y": 2} if as_dict else [1, 2]
        enc_plain = {"x": 3, "y": 4} if cfg_nt else [3, 4]
        check("encode|engine-reaches-the-member", lambda: HN(u=v, plain=Pt(3, 4)).to_dict(), {"u": [enc_pt, 7] if tup else enc_pt, "plain": enc_plain}, src)
        check("decode|engine-reaches-the-member", lambda: HN.from_dict({"u": [enc_pt, 7] if tup else enc_pt, "plain": enc_plain}), HN(u=v, plain=Pt(3, 4)), src)
        if "str" in ann:
            check("roundtrip|other-member", lambda: HN.from_dict(HN(u="txt").to_dict()).u, "txt", src)


def run_case(seed, tier, rec, st):
    from mashumaro.codecs.basic import BasicDecoder, BasicEncoder
    from mashumaro.exceptions import InvalidFieldValue
    rng = random.Random(seed)
    fam = Family("c11")
    try:
        if rng.random() < 0.1:
            return special_cases(rng, tier, rec, fam)
        tg = TypeGen(fam, rng)
        tg.lit_conflate = True
        tg.allow_self = False
        kind = rng.random()
        if kind < 0.12:
            t = tg.literal()
            members = None
        elif kind < 0.2:
            # the two-member Optional[X] proper (as a field it often carries a falsy, non-None default)
            t = ("opt", rng.choice([("int",), ("str",), ("bool",), ("float",), ("decimal",), ("timedelta",), ("fraction",), ("date",), ("uuid",)]),
                 rng.choice(["Optional", "Optional", "union", "union_first"]))
            members = None
        else:
            members = gen_union(tg, rng)
            style = "pipe" if (rng.random() < 0.15 and tg._all_pipe_ok(list(members))) else "Union"
            t = ("union", members, style)
            w = rng.random()
            if w < 0.1 and ("none",) not in members:
                t = ("opt", t, "Optional")
            elif w < 0.2:
                t = ("seq", "List", t)
            elif w < 0.27:
                t = ("map", "Dict", ("str",), t)
            elif w < 0.32:
                tvn = tg.fresh("TV")
                if all(m[0] not in ("lit", "none") for m in members):
                    fam.add({"k": "typevar", "name": tvn, "constraints": list(members)})
                    t = ("tv", tvn)
            elif w < 0.40:
                t = ("vtuple", rng.choice(["Tuple", "tuple"]), t)
            elif w < 0.45:
                t = ("tuple", "Tuple", [t, ("int",)])
            elif w < 0.48:
                t = ("seq", "Deque", t)
            # the container itself optional (the enclosing position then already knows the value is not None)
            if t[0] in ("seq", "map", "vtuple", "tuple") and rng.random() < 0.4:
                t = ("opt", t, "Optional")
        ref = Ref(fam)
        tt = common.eval_type(fam, t)
        t = common.align_unions(fam, t, tt)      # typing's alias cache may hand back another member order
        try:
            enc, dec = BasicEncoder(tt), BasicDecoder(tt)
        except Exception as e:
            rec.violation(f"codec-build:{type(e).__name__}", {"type": tast.render(t), "error": str(e)[:300], "family": fam.to_json()}, {"stage": "build"})
            return
        wname = tg.fresh("W")
        wx = {"n": "x", "t": t}
        FALSY = {"int": 0, "str": "", "bool": False, "float": 0.0, "decimal": __import__("decimal").Decimal(0),
                 "timedelta": __import__("datetime").timedelta(0), "fraction": __import__("fractions").Fraction(0)}
        if t[0] == "opt" and tast.strip(t[1])[0] in FALSY and rng.random() < 0.6:
            # nullable field whose default is falsy but not None: an explicit null is still a value
            wx.update(dmode="default", dseed=0, const_default=FALSY[tast.strip(t[1])[0]])
        elif t[0] == "opt" and rng.random() < 0.5:
            wx.update(dmode="default", dseed=0, const_default=None)
        fam.add({"k": "dc", "name": wname, "bases": [], "mixin": "DataClassDictMixin", "fields": [wx]}, tg.value_maker)
        W = fam.get(wname)
        # the same members in the opposite declaration order, as a sibling field of one class (typing treats the two
        # unions as equal; the library must still try each in its own order)
        pair = None
        if t[0] == "union" and len(t[1]) >= 2 and rng.random() < 0.5:
            t_rev = ("union", tuple(reversed(t[1])), "Union")
            try:
                live_rev = common.eval_type(fam, t_rev)
                if live_rev is not tt:
                    t_rev = common.align_unions(fam, t_rev, live_rev)
                    pname = tg.fresh("P")
                    fam.add({"k": "dc", "name": pname, "bases": [], "mixin": "DataClassDictMixin",
                             "fields": [{"n": "a", "t": t}, {"n": "b", "t": t_rev}]}, tg.value_maker)
                    pair = (fam.get(pname), t_rev)
            except Exception:
                pair = None
        vg = Gen(fam, rng)
        facts0 = {"type_kinds": sorted({n[0] for n in common.deep_nodes(fam, t)}), "union_copy_shortcut": common.union_copy_fact(fam, t)}
        # ---------------- encode: member values
        valid_docs = []
        for j in range(6 if tier == "quick" else 12):
            v = vg.value(t, 2)
            rec.evaluation()
            try:
                exp = ref.enc(t, v, Ctx())
            except RefError:
                rec.count("ref_encode_undefined")
                continue
            for rname, fn in (("codec", lambda: enc.encode(v)), ("field", lambda: W(v).to_dict()["x"])):
                try:
                    out = fn()
                except Exception as ex:
                    rec.violation(f"encode:{rname}:exception:{type(ex).__name__}", {"type": tast.render(t), "value": common.short(v),
                                  "error": f"{type(ex).__name__}: {ex}"[:300], "family": fam.to_json()}, dict(facts0, encoded_only_basic=None, **str_packer_fact(ref, t, v)))
                    continue
                if match(out, exp):
                    rec.count("encode_agree")
                    if rname == "codec":
                        valid_docs.append(out)
                else:
                    rec.violation(f"encode:{rname}:differs-from-member-encoding:{type(v).__name__}-rendered-as-{type(out).__name__}", {"type": tast.render(t), "value": common.short(v),
                                  "observed": common.short(out, 300), "expected": common.short(plain(exp), 300), "family": fam.to_json()},
                                  dict(facts0, encoded_only_basic=only_basic(out), **str_packer_fact(ref, t, v),
                                       equals_blind_encoding_by_earlier_member=blind_earlier_encoding(fam, ref, t, v, out)))
        # ---------------- decode: valid docs, cross-type scalars, junk
        inputs = list(valid_docs)
        inputs += [True, False, 0, 1, 1.0, -2.5, "12", "1.5", "a", "", None, "2020-01-02", "true", [], {}, [1], ["a"], {"a": 1}, b"x"]
        inputs += rng.sample(junk_pool(), 8)
        for d in inputs:
            rec.evaluation()
            try:
                exp = ("ok", ref.dec(t, d, Ctx()))
            except RefError as e:
                exp = ("raise", e)
            for rname, fn in (("codec", lambda: dec.decode(d)), ("field", lambda: W.from_dict({"x": d}).x)):
                try:
                    got = ("ok", fn())
                except Exception as ex:
                    got = ("raise", ex)
                if got[0] == "raise" and exp[0] == "raise":
                    ex = got[1]
                    if rname == "field" and not isinstance(ex, InvalidFieldValue):
                        rec.violation(f"decode:field:undocumented-exception:{type(ex).__name__}", {"type": tast.render(t), "input": common.short(d), "error": str(ex)[:200]}, facts0)
                    else:
                        rec.count("decode_agree_raise")
                    continue
                if got[0] == "ok" and exp[0] == "ok" and deep_eq(got[1], exp[1], key_order=False):
                    rec.count("decode_agree_return")
                    continue
                facts = dict(facts0, explained_by=explained_by(fam, t, d, got))
                det = {"type": tast.render(t), "route": rname, "input": common.short(d, 300),
                       "observed": common.short(got[1], 300) if got[0] == "ok" else f"raise {type(got[1]).__name__}: {got[1]}"[:300],
                       "expected": common.short(exp[1], 300) if exp[0] == "ok" else f"raise ({exp[1]})"[:300], "family": fam.to_json()}
                o = type(got[1]).__name__ if got[0] == "ok" else "raise"
                e_ = type(exp[1]).__name__ if exp[0] == "ok" else "raise"
                rec.violation(f"decode:{rname}:{type(d).__name__}-input:expected-{e_}:observed-{o}", det, facts)
            if pair is not None and exp[0] == "ok":
                P, t_rev = pair
                rec.evaluation()
                try:
                    exp_b = ("ok", ref.dec(t_rev, d, Ctx()))
                except RefError as e:
                    exp_b = ("raise", e)
                try:
                    got_b = ("ok", P.from_dict({"a": d, "b": d}).b)
                except Exception as ex:
                    got_b = ("raise", ex)
                if got_b[0] == exp_b[0] and (got_b[0] == "raise" or deep_eq(got_b[1], exp_b[1], key_order=False)):
                    rec.count("decode_agree_return" if got_b[0] == "ok" else "decode_agree_raise")
                    rec.count("sibling_union_reversed_order_agree")
                else:
                    rec.violation(f"decode:sibling-union-in-reversed-order:{type(d).__name__}-input", {"type": tast.render(t), "reversed": tast.render(t_rev),
                                  "input": common.short(d, 300), "observed": common.short(got_b[1], 300) if got_b[0] == "ok" else f"raise {type(got_b[1]).__name__}",
                                  "expected": common.short(exp_b[1], 300) if exp_b[0] == "ok" else "raise", "family": fam.to_json()},
                                  dict(facts0, explained_by=explained_by(fam, t_rev, d, got_b)))
            rec.nontrivial((tast.shape_hash(t), repr(d)[:120]))
        rec.sample({"type": tast.render(t), "inputs": [common.short(x, 60) for x in inputs[:6]]})
    finally:
        fam.dispose()


def explained_by(fam, t, d, got):
    # each recorded mechanism alone, then both together (one input can run into both: a NamedTuple with defaults whose
    # first member is a union with a None member); the combination is attributed to the rarer one
    for q in ("F02", "F24", ("F02", "F24")):
        qref = Ref(fam, quirks=q if isinstance(q, tuple) else (q,))
        try:
            e = ("ok", qref.dec(t, d, Ctx()))
        except RefError as ex:
            e = ("raise", ex)
        if e[0] != got[0]:
            continue
        if e[0] == "raise" or deep_eq(got[1], e[1], key_order=False):
            return q if isinstance(q, str) else "F24"
    return None


BASIC_KINDS = ("int", "float", "bool", "str", "none")


def blind_earlier_encoding(fam, ref, t, v, out):
    """is the observed document exactly what finding F20's mechanism predicts - the rendering of the value by the FIRST member
    declared before its own one whose packer does not raise (the library's own packer of that member, applied blindly)?
    None when the union is not the outermost node (the position is then not isolated)."""
    from mashumaro.codecs.basic import BasicEncoder
    s = tast.strip(t)
    if s[0] == "tv":
        df = fam.defs[s[1]]
        if not df.get("constraints"):
            return None
        s = ("union", tuple(df["constraints"]))
    if not (s[0] == "union" or (s[0] == "opt" and tast.strip(s[1])[0] == "union")):
        return None
    try:
        ms = ref.union_members(s)
        owner = ref.member_of(ms, v)
        if owner is None:
            return None
        for m in ms[:ms.index(owner)]:
            if tast.strip(m)[0] in BASIC_KINDS:
                continue
            try:
                blind = BasicEncoder(common.eval_type(fam, m)).encode(v)
            except Exception:
                continue
            return type(blind) is type(out) and blind == out
        return False
    except Exception:
        return None


def str_packer_fact(ref, t, v):
    """F20 mechanism fact: in the union the value sits in, a non-basic member is declared BEFORE the member the value
    belongs to (the union serializer takes the first member whose packer does not raise)."""
    return {"earlier_nonscalar_member_before_value_member": earlier_member(ref, t, v)}


earlier_member = common.earlier_member
