"""C12 - discriminated unions pick exactly the tagged class in any definition order."""
from __future__ import annotations

import random

from ..family import Family
from . import common

LEVEL = "exploration"
RULE = ("case = one random history (<= 14 events quick / <= 32 thorough) over a class hierarchy: 'define subclass (tag t, "
        "parent p)', 'define untagged intermediate', 'deserialize input tagged t via wiring w'. Wirings are created at the "
        "START of the history and re-used: class-level Config.discriminator, Annotated field of a holder dataclass, "
        "BasicDecoder(Annotated[Root, Discriminator]), union of two roots with include_supertypes, variant_tagger_fn "
        "(single and list-valued), and field-less discriminators (flat hierarchy). Tags include falsy and non-string "
        "values. The event log is checked offline against a sequential model tag -> class among the classes defined "
        "so far: type(result) is model[t], MissingDiscriminatorError without a tag key, SuitableVariantNotFoundError for "
        "an unknown (or not yet defined) tag. distinct_nontrivial = distinct (wiring, hierarchy shape at call time, tag "
        "status) triples.")
RULE += " Additions: from_dict and from_msgpack of one hierarchy (root and holder members) mixed in one history; variants without fields of their own; discriminator inherited from a shared Config base."
ASSUMPTIONS = ["tags are unique per hierarchy (the property speaks of 'the unique eligible class')",
               "field-less mode is exercised on flat hierarchies where exactly one subclass accepts the input"]
BUDGET_S = {"quick": 150, "thorough": 1200}
MIN_EVENTS = {"quick": {"evaluations": 15000, "deser_hit": 5000, "deser_after_late_definition": 1500, "deser_unknown_tag": 1500},
              "thorough": {"evaluations": 600000, "deser_hit": 200000, "deser_after_late_definition": 60000, "deser_unknown_tag": 60000}}

TAGS = ["a", "b", "c", 1, 0, "", "x y", 2, "T", -1, "d", "e", 7, "None", "0"]


def n_cases(tier):
    return 8000 if tier == "quick" else 150000


def worker_setup(tier, rec):
    return common.install_monitors(rec)


def worker_finish(tier, rec, st):
    common.finish_monitors(rec, st)


PRE = """
import abc
class Boom(Exception):
    pass

def tagger_single(cls):
    return 'T:' + cls.__name__

def tagger_list(cls):
    return ['L:' + cls.__name__, 'l:' + cls.__name__.lower()]
"""


def run_case(seed, tier, rec, st):
    from mashumaro.codecs.basic import BasicDecoder
    from mashumaro.exceptions import (InvalidFieldValue, MissingDiscriminatorError, SuitableVariantNotFoundError)
    rng = random.Random(seed)
    fam = Family("c12")
    try:
        if rng.random() < 0.08:
            return twin_fields_case(rng, tier, rec, fam)
        fam.exec_src(PRE)
        mod = fam.module
        mode = rng.choice(["config", "annotated", "union", "tagger", "nofield", "nested"])
        lazy = "        lazy_compilation = True\n" if rng.random() < 0.15 else ""
        mixin = "DataClassDictMixin" if (mode in ("config", "nested") or rng.random() < 0.6) else ""
        # the hierarchy on the msgpack mixin, dispatched through from_msgpack: variants compiled on first use must get
        # the format's dialect (their bytes member arrives as bin)
        packed = mode == "config" and rng.random() < 0.3
        if packed:
            mixin = "DataClassMessagePackMixin"
        base = f"({mixin})" if mixin else ""
        inc_super = rng.random() < 0.5
        # other Annotated metadata in front of the Discriminator
        pre_ann = rng.choice(["", "", "'doc', ", "{'note': 1}, 'x', "])
        tags = list(TAGS)
        rng.shuffle(tags)
        events = []
        classes = {}      # name -> {"parent", "tag", "root"}
        order = []

        def _ancestors(n):
            out = []
            while n in classes and isinstance(classes[n], dict):
                out.append(n)
                n = classes[n].get("parent")
            return out

        def define(name, parent, tag, root, extra="", tagfield="k"):
            body = []
            if tag is not None and mode != "tagger":
                body.append(f"    {tagfield} = {tag!r}")
            # a variant may add nothing but its tag (no fields of its own)
            bare = tag is not None and mode != "tagger" and not extra and rng.random() < 0.3
            if not bare:
                body.append(f"    f_{name}: int = 0")
                if packed:
                    body.append(f"    b_{name}: bytes = b''")
            if extra:
                body.append(extra)
            deco = "@dataclass"
            parents = parent
            if tag is None and mode in ("config", "annotated", "union") and not extra and rng.random() < 0.5:
                # an ABSTRACT intermediate class (nobody instantiates it, its concrete subclasses are ordinary variants)
                parents = f"{parent}, abc.ABC"
                body.append("    @abc.abstractmethod\n    def describe(self):\n        ...")
                classes.setdefault("_abstract", set()).add(name)
            elif any(a in classes.get("_abstract", ()) for a in _ancestors(parent)):
                body.append("    def describe(self):\n        return 'concrete'")
            if (tag is not None and mode in ("config", "annotated", "union") and not bare and not packed
                    and not any(a in classes.get("_abstract", ()) or a in classes.get("_slots", ()) for a in _ancestors(parent)) and rng.random() < 0.25):
                # dataclass(slots=True) re-creates the class: the decorated class is the variant, not the discarded original
                deco = "@dataclass(slots=True)"
                classes.setdefault("_slots", set()).add(name)
            src = f"{deco}\nclass {name}({parents}):\n" + "\n".join(body) + "\n"
            fam.exec_src(src)
            classes[name] = {"parent": parent if parent in classes else None, "tag": tag, "root": root}
            order.append(name)
            events.append(("define", name, parent, tag))
            return src
        # ---- roots + wirings
        if mode == "nested":
            # two levels of tagging: R dispatches on 'k'; its variant Mid dispatches its own subtree on 'k2'
            fam.exec_src("@dataclass\nclass R" + base + ":\n    f_R: int = 0\n    class Config(BaseConfig):\n"
                         "        discriminator = Discriminator(field='k', include_subtypes=True)\n" + lazy)
            classes["R"] = {"parent": None, "tag": None, "root": "R"}
            order.append("R")
            mid_tag = tags.pop()
            define("Mid", "R", mid_tag, "R", extra="    class Config(BaseConfig):\n        discriminator = Discriminator(field='k2', include_subtypes=True)\n" + lazy)
            inner = {}          # k2 tag -> class, within Mid's subtree
            inner_order = ["Mid"]
            roots = ["R"]
            pdec = None
            wirings = {"config": lambda d: mod.R.from_dict(d)}
            eligible_root = False
        elif mode == "config":
            root_tag = tags.pop() if rng.random() < 0.3 else None
            if rng.random() < 0.25:
                # the discriminator is declared by a shared Config base class; the root's own Config only derives from it
                fam.exec_src("class TaggedConfig(BaseConfig):\n    discriminator = Discriminator(field='k', include_subtypes=True)\n"
                             + ("class TaggedConfig2(TaggedConfig):\n    omit_none = True\n" if rng.random() < 0.5 else "TaggedConfig2 = TaggedConfig\n"))
                fam.exec_src("@dataclass\nclass R" + base + ":\n" + (f"    k = {root_tag!r}\n" if root_tag is not None else "") +
                             "    f_R: int = 0\n    class Config(TaggedConfig2):\n        sort_keys = True\n" + lazy)
                rec.count("discriminator_inherited_from_config_base")
            else:
                fam.exec_src("@dataclass\nclass R" + base + ":\n" + (f"    k = {root_tag!r}\n" if root_tag is not None else "") +
                             "    f_R: int = 0\n    class Config(BaseConfig):\n"
                             "        discriminator = Discriminator(field='k', include_subtypes=True)\n" + lazy)
            classes["R"] = {"parent": None, "tag": root_tag, "root": "R"}
            order.append("R")
            roots = ["R"]
            wirings = {"config": lambda d: mod.R.from_dict(d)}
            if rng.random() < 0.6:
                # the root as the type of a holder's members (the nested, per-format methods are compiled on demand)
                fam.exec_src(f"@dataclass\nclass HC{base or '(DataClassDictMixin)'}:\n    p: R\n    q: List[R] = field(default_factory=list)\n")
                wirings["config-holder"] = lambda d: mod.HC.from_dict({"p": d}).p
                wirings["config-holder-list"] = lambda d: mod.HC.from_dict({"p": d, "q": [d]}).q[0]
                if packed:
                    import msgpack as _mp2
                    wirings["config-holder-msgpack"] = (lambda d: mod.HC.from_msgpack(_mp2.packb({"p": dict(d, **{f"b_{c}": b"\x00raw" for c in order if c != "R" and f"b_{c}" in getattr(getattr(mod, c), "__annotations__", {})})}, use_bin_type=True)).p)
            if packed:
                import msgpack as _mp
                # BOTH entry points on one hierarchy, mixed in one history (the registry of variants filled by one format's
                # dispatcher must not mislead the other's)
                wirings["config-msgpack"] = (lambda d: mod.R.from_msgpack(_mp.packb(dict(d, **{f"b_{c}": b"\x00raw" for c in order if c != "R" and f"b_{c}" in getattr(getattr(mod, c), "__annotations__", {})}), use_bin_type=True)))
            eligible_root = False        # config-level: subtypes only
        elif mode in ("annotated", "tagger"):
            root_tag = tags.pop() if rng.random() < 0.5 else None
            fam.exec_src("@dataclass\nclass R" + base + ":\n" + (f"    k = {root_tag!r}\n" if (root_tag is not None and mode != "tagger") else "") + "    f_R: int = 0\n")
            classes["R"] = {"parent": None, "tag": root_tag, "root": "R"}
            order.append("R")
            roots = ["R"]
            if mode == "tagger":
                tg = rng.choice(["tagger_single", "tagger_list"])
                disc = f"Discriminator(field='k', include_subtypes=True, include_supertypes={inc_super}, variant_tagger_fn={tg})"
            else:
                disc = f"Discriminator(field='k', include_subtypes=True, include_supertypes={inc_super})"
            fam.exec_src(f"DISC = Annotated[R, {pre_ann}{disc}]\n@dataclass\nclass H(DataClassDictMixin):\n    p: DISC\n    q: List[DISC] = field(default_factory=list)\n")
            dec = BasicDecoder(mod.DISC)
            dec_list = BasicDecoder(eval("Dict[str, DISC]", mod.__dict__))
            wirings = {"holder": lambda d: mod.H.from_dict({"p": d}).p,
                       "holder-list": lambda d: mod.H.from_dict({"p": d, "q": [d]}).q[0],
                       "codec": dec.decode, "codec-dict": lambda d: dec_list.decode({"x": d})["x"]}
            if mode == "tagger":
                # a second member of the same holder dispatched by the OTHER tagger function
                other_tg = "tagger_list" if tg == "tagger_single" else "tagger_single"
                fam.exec_src(f"@dataclass\nclass H2(DataClassDictMixin):\n    p: DISC\n    r: Annotated[R, Discriminator(field='k', include_subtypes=True, include_supertypes={inc_super}, variant_tagger_fn={other_tg})] = None\n")
                other_fn = getattr(mod, other_tg)

                def second(d, other_fn=other_fn):
                    # d is tagged for the first function; the same class tagged for the second one goes to member r
                    import copy
                    t1 = d.get("k") if isinstance(d, dict) else None
                    cls_ = next((c for c in order if t1 in (tagger(getattr(mod, c)) if isinstance(tagger(getattr(mod, c)), list) else [tagger(getattr(mod, c))])), None)
                    if cls_ is None:
                        return mod.H2.from_dict({"p": d}).p
                    tv = other_fn(getattr(mod, cls_))
                    d2 = dict(d, k=tv[0] if isinstance(tv, list) else tv)
                    h = mod.H2.from_dict({"p": d, "r": d2})
                    if type(h.r) is not type(h.p):
                        raise AssertionError(f"second tagger resolved {type(h.r).__name__}, first {type(h.p).__name__}")
                    return h.r
                wirings["holder-two-taggers"] = second
            if mode == "annotated":
                # the same metadata written OUTSIDE a wrapper of the class: Annotated[Optional[R], D], Annotated[List[R], D]
                fam.exec_src(f"@dataclass\nclass HO(DataClassDictMixin):\n    o: Annotated[Optional[R], {pre_ann}{disc}] = None\n    l: Annotated[List[R], {pre_ann}{disc}] = field(default_factory=list)\n")
                dec_o = BasicDecoder(eval(f"Annotated[Optional[R], {pre_ann}{disc}]", mod.__dict__))
                wirings.update({"holder-optional-outside": lambda d: mod.HO.from_dict({"o": d}).o, "holder-list-outside": lambda d: mod.HO.from_dict({"l": [d, d]}).l[1],
                                "codec-optional-outside": dec_o.decode})
            eligible_root = inc_super
        elif mode == "union":
            fam.exec_src("@dataclass\nclass R" + base + ":\n    f_R: int = 0\n@dataclass\nclass Q" + base + ":\n    f_Q: int = 0\n")
            classes["R"] = {"parent": None, "tag": None, "root": "R"}
            classes["Q"] = {"parent": None, "tag": None, "root": "Q"}
            order += ["R", "Q"]
            roots = ["R", "Q"]
            fam.exec_src(f"DISC = Annotated[Union[R, Q], {pre_ann}Discriminator(field='k', include_subtypes=True, include_supertypes={inc_super})]\n"
                         "@dataclass\nclass H(DataClassDictMixin):\n    p: DISC\n")
            dec = BasicDecoder(mod.DISC)
            wirings = {"holder": lambda d: mod.H.from_dict({"p": d}).p, "codec": dec.decode}
            eligible_root = inc_super
        else:  # nofield, flat hierarchy; every child has its own required field
            fam.exec_src("@dataclass\nclass R" + base + ":\n    f_R: int = 0\n")
            classes["R"] = {"parent": None, "tag": None, "root": "R"}
            order.append("R")
            roots = ["R"]
            fam.exec_src(f"DISC = Annotated[R, {pre_ann}Discriminator(include_subtypes=True, include_supertypes={inc_super})]\n"
                         "@dataclass\nclass H(DataClassDictMixin):\n    p: DISC\n")
            dec = BasicDecoder(mod.DISC)
            wirings = {"holder": lambda d: mod.H.from_dict({"p": d}).p, "codec": dec.decode}
            eligible_root = inc_super
        tagger = None
        if mode == "tagger":
            tagger = getattr(mod, tg)
        nev = rng.randint(6, 14 if tier == "quick" else 32)
        ncls = 0
        pending_tags = [tags.pop() for _ in range(3)]   # tags that may get defined later: asked for before and after
        last_define_idx = -1
        for step in range(nev):
            if rng.random() < 0.45 and ncls < 10:
                ncls += 1
                name = f"C{ncls}"
                if mode == "nofield":
                    parent = "R"
                    extra = f"    r_{name}: int = field(kw_only=True)"
                    if rng.random() < 0.5:
                        # user code rejecting a value with its own exception type: the variant just does not fit
                        extra += f"\n    def __post_init__(self):\n        " + rng.choice([
                            f"if self.r_{name} == 13:\n            raise Boom('unlucky')", f"assert self.r_{name} != 13, 'unlucky'"])
                        classes.setdefault("_rejecting", set()).add(name)
                    define(name, parent, None, "R", extra=extra)
                elif mode == "nested" and rng.random() < 0.6:
                    parent = rng.choice(inner_order)
                    tag = pending_tags.pop() if pending_tags and rng.random() < 0.4 else tags.pop()
                    define(name, parent, tag, "R", tagfield="k2")
                    classes[name]["inner"] = True
                    inner[tag] = name
                    inner_order.append(name)
                elif mode == "nested":
                    parent = rng.choice([c for c in order if c not in inner_order])
                    define(name, parent, tags.pop(), "R")
                else:
                    parent = rng.choice([c for c in order])
                    untagged = rng.random() < 0.2 and mode != "tagger"
                    tag = None if untagged else (pending_tags.pop() if pending_tags and rng.random() < 0.4 else tags.pop())
                    define(name, parent, tag, classes[parent]["root"])
                last_define_idx = len(events)
                continue
            # ---- deserialize
            rec.evaluation()
            wname = rng.choice(list(wirings))
            wfn = wirings[wname]
            if mode == "nofield":
                kids = [c for c in order if c != "R"]
                pick = rng.choice(kids + ["R", "nobody"]) if kids else rng.choice(["R", "nobody"])
                if pick == "R":
                    d = {"f_R": 5}
                    exp = ("cls", "R") if eligible_root else ("err", "SuitableVariantNotFoundError")
                elif pick == "nobody":
                    d = {"f_R": "not-an-int"}
                    exp = ("err", "SuitableVariantNotFoundError")
                elif pick in classes.get("_rejecting", ()) and rng.random() < 0.4:
                    # the only fitting variant refuses the value from its own __post_init__: next variant / supertype
                    d = {f"r_{pick}": 13, "f_R": 1}
                    exp = ("cls", "R") if eligible_root else ("err", "SuitableVariantNotFoundError")
                else:
                    d = {f"r_{pick}": 3, "f_R": 1}
                    exp = ("cls", pick)
                status = pick if pick in ("R", "nobody") else ("child-rejecting" if d.get(f"r_{pick}") == 13 else "child")
            elif mode == "nested" and rng.random() < 0.6:
                choice = rng.random()
                d = {"k": mid_tag}
                if choice < 0.5 and inner:
                    t2 = rng.choice(list(inner))
                    d["k2"] = t2
                    exp, status = ("cls", inner[t2]), "inner-known"
                elif choice < 0.75:
                    exp, status = ("err", "MissingDiscriminatorError"), "inner-no-key"
                else:
                    d["k2"] = rng.choice(pending_tags) if pending_tags and rng.random() < 0.5 else "never-defined"
                    exp, status = ("err", "SuitableVariantNotFoundError"), "inner-unknown"
            else:
                model = {}
                for c in order:
                    info = classes[c]
                    if info.get("inner") or c == "Mid":
                        continue
                    is_root = info["parent"] is None
                    if is_root and not eligible_root:
                        continue
                    if mode == "tagger":
                        tv = tagger(getattr(mod, c))
                        for t_ in (tv if isinstance(tv, list) else [tv]):
                            model[t_] = c
                    elif info["tag"] is not None:
                        model[info["tag"]] = c
                choice = rng.random()
                if choice < 0.6 and model:
                    t = rng.choice(list(model))
                    status = "known"
                elif choice < 0.75:
                    t = None
                    status = "no-key"
                elif choice < 0.9 and pending_tags:
                    t = rng.choice(pending_tags)
                    status = "not-yet-defined"
                else:
                    t = "never-defined" if mode != "tagger" else "T:Nope"
                    status = "unknown"
                d = {} if t is None else {"k": t}
                if status == "no-key":
                    exp = ("err", "MissingDiscriminatorError")
                elif t in model:
                    exp = ("cls", model[t])
                else:
                    exp = ("err", "SuitableVariantNotFoundError")
            try:
                r = wfn(dict(d))
                got = ("cls", type(r).__name__ if type(r) is getattr(mod, type(r).__name__, None) else f"foreign:{type(r)!r}")
            except (MissingDiscriminatorError, SuitableVariantNotFoundError) as e:
                got = ("err", type(e).__name__)
            except InvalidFieldValue as e:
                # holder wirings wrap the lookup error of the field
                inner = e.__context__
                got = ("err", type(inner).__name__ if isinstance(inner, (MissingDiscriminatorError, SuitableVariantNotFoundError)) else f"InvalidFieldValue({type(inner).__name__})")
            except Exception as e:
                got = ("exc", f"{type(e).__name__}: {e}"[:160])
            events.append(("deser", wname, repr(d), exp, got))
            late = last_define_idx > 0
            if got == exp:
                rec.count("deser_hit" if exp[0] == "cls" else ("deser_unknown_tag" if exp[1].startswith("Suitable") else "deser_missing_key"))
                if late:
                    rec.count("deser_after_late_definition")
                rec.nontrivial((mode, wname, tuple((classes[c]["parent"], classes[c]["tag"] is not None, bool(classes[c].get("inner"))) for c in order), status))
            else:
                rec.violation(f"history:{mode}:{wname}:{status}:{exp[0]}->{got[0]}",
                              {"mode": mode, "include_supertypes": inc_super, "source": "".join(fam.sources[2:]),
                               "history": [list(map(str, e)) for e in events[-14:]], "input": repr(d), "expected": exp, "observed": got},
                              {"mode": mode, "wiring": wname, "status": status, "late_definition": late})
        rec.sample({"mode": mode, "history": [list(map(str, e)) for e in events[:10]]}) if len(events) > 6 else None
    finally:
        fam.dispose()


def twin_fields_case(rng, tier, rec, fam):
    """two fields of the SAME name in two plain holders of one decoder, each a tagged Union of its own with equal
    Discriminator settings and the same tag values: every field keeps its own tag -> class registry."""
    from mashumaro.codecs.basic import BasicDecoder
    sub = rng.random() < 0.5
    disc = f"Discriminator(field='k', include_supertypes=True, include_subtypes={sub})"
    src = ""
    for root in ("R", "Q"):
        for tag in ("x", "y"):
            src += f"@dataclass\nclass {root}{tag.upper()}:\n    k = {tag!r}\n    f_{root}{tag}: int = 0\n"
    src += (f"DISC_R = Annotated[Union[RX, RY], {disc}]\nDISC_Q = Annotated[Union[QX, QY], {disc}]\n"
            "@dataclass\nclass HA:\n    body: DISC_R\n@dataclass\nclass HB:\n    body: DISC_Q\n"
            "@dataclass\nclass Env:\n    a: Optional[HA] = None\n    b: Optional[HB] = None\n")
    fam.exec_src(src)
    mod = fam.module
    dec = rng.choice([lambda: BasicDecoder(mod.Env).decode, lambda: (lambda d, D=BasicDecoder(eval("List[Env]", mod.__dict__)): D.decode([d])[0])])()
    model = {"R": {"x": "RX", "y": "RY"}, "Q": {"x": "QX", "y": "QY"}}
    events = []
    nsub = 0
    for step in range(8 if tier == "quick" else 20):
        if sub and rng.random() < 0.25 and nsub < 4:
            nsub += 1
            root = rng.choice(["R", "Q"])
            parent = rng.choice(list(model[root].values()))
            name, tag = f"{root}S{nsub}", f"s{nsub}"
            fam.exec_src(f"@dataclass\nclass {name}({parent}):\n    k = {tag!r}\n    f_{name}: int = 0\n")
            model[root][tag] = name
            events.append(("define", name, parent, tag))
            continue
        side = rng.choice(["a", "b", "both", "both"])
        d, exp = {}, {}
        for s_, root in (("a", "R"), ("b", "Q")):
            if side in (s_, "both"):
                t = rng.choice(list(model[root]))
                d[s_] = {"body": {"k": t}}
                exp[s_] = model[root][t]
        rec.evaluation()
        try:
            r = dec(d)
            got = {s_: type(getattr(r, s_).body).__name__ for s_ in exp}
        except Exception as e:
            got = f"{type(e).__name__}: {e}"[:200]
        events.append(("deser", repr(d), exp, got))
        if got == exp:
            rec.count("deser_hit")
            rec.count("twin_field_hits")
            rec.nontrivial(("twin-fields", sub, tuple(sorted(model["R"])), tuple(sorted(model["Q"])), side))
        else:
            rec.violation("history:twin-fields:wrong-class", {"source": "".join(fam.sources[1:]), "history": [list(map(str, e)) for e in events[-10:]],
                          "input": repr(d), "expected": exp, "observed": got}, {"mode": "twin-fields", "side": side})
