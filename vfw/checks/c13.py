"""C13 - dialects are isolated per call and honoured uniformly by every codec."""
from __future__ import annotations

import json
import random
import re

from ..family import Family
from . import common

LEVEL = "exploration"
RULE = ("part A (histories): a class tree (parent, child, nested, Self-recursive, optionally on a format mixin; all with "
        "ADD_DIALECT_SUPPORT) receives a random sequence (<= 12 quick / <= 40 thorough) of to_dict / from_dict / "
        "to_<format> / from_<format> calls with dialects drawn from {None, D1..D5} (option vectors over "
        "serialization_strategy, omit_none, omit_default, serialize_by_alias, namedtuple_as_dict, no_copy_collections); "
        "each call's result must equal the same call, without dialect argument, on a FRESHLY BUILT twin family whose "
        "Config.dialect is that dialect. part B (codecs): for the same dialect object handed as default_dialect to the "
        "basic, json, orjson, yaml, msgpack and toml codecs in random order, every format's parsed document must equal "
        "the basic-codec document of a pristine copy of the dialect (format natives rendered by the format library, "
        "nulls dropped for TOML) and the decoder must invert it; an icontract post-condition on Dialect.merge checks that "
        "every option of the merged-in dialect survives and that neither argument is modified. distinct_nontrivial = "
        "distinct (part, class, op, dialect vector, history prefix hash) tuples.")
ASSUMPTIONS = ["dialect pool is finite; twin families are rebuilt from the same source text",
               "keyword flags other than ADD_DIALECT_SUPPORT are left to C08 (finding F25)"]
BUDGET_S = {"quick": 150, "thorough": 1200}
CASES_PER_PROCESS = {"quick": 400, "thorough": 500}
MIN_EVENTS = {"quick": {"evaluations": 15000, "history_agree": 8000, "codec_agree": 3000, "merge_contract_evaluations": 500},
              "thorough": {"evaluations": 500000, "history_agree": 250000, "codec_agree": 100000, "merge_contract_evaluations": 15000}}


def n_cases(tier):
    return 2400 if tier == "quick" else 40000


class MergeBroken(Exception):
    pass


_MERGE_STATE = {"installed": False, "n": 0, "violations": []}


def install_merge_contract():
    """icontract post-condition on the public Dialect.merge (bound late: looked up on the class at call time)."""
    if _MERGE_STATE["installed"]:
        return
    import icontract
    from mashumaro.dialect import Dialect
    from mashumaro.core.const import Sentinel
    OPTS = ("omit_none", "omit_default", "no_copy_collections", "serialize_by_alias", "namedtuple_as_dict")

    def snap(d):
        return (tuple((k, id(v), tuple(sorted(v.items(), key=repr)) if isinstance(v, dict) else None)
                      for k, v in d.serialization_strategy.items()),
                tuple(getattr(d, o) if not isinstance(getattr(d, o), (list, tuple)) else tuple(getattr(d, o)) for o in OPTS))

    def before(cls, other):
        return (snap(cls), snap(other))

    def merged_honours_other(cls, other, result, OLD):
        _MERGE_STATE["n"] += 1
        problems = []
        for o in OPTS:
            ov = getattr(other, o)
            if ov is not Sentinel.MISSING and getattr(result, o) != ov:
                problems.append(f"option {o} of the merged-in dialect lost: {ov!r} -> {getattr(result, o)!r}")
            elif ov is Sentinel.MISSING and getattr(result, o) != getattr(cls, o):
                problems.append(f"option {o} of the base dialect lost")
        if (snap(cls), snap(other)) != OLD.before:
            problems.append("Dialect.merge modified one of its arguments")
        for k, v in other.serialization_strategy.items():
            rv = result.serialization_strategy.get(k)
            if isinstance(v, dict):
                if not isinstance(rv, dict) or any(rv.get(d) is not f for d, f in v.items()):
                    problems.append(f"strategy for {k!r} of the merged-in dialect not honoured")
            elif rv is not v:
                problems.append(f"strategy for {k!r} of the merged-in dialect not honoured")
        if problems:
            _MERGE_STATE["violations"].append(problems)
        return True   # record and return True: a raising contract would abort what it observes

    orig = Dialect.__dict__["merge"].__func__
    wrapped = icontract.snapshot(before, name="before")(
        icontract.ensure(merged_honours_other, error=MergeBroken)(orig))
    Dialect.merge = classmethod(wrapped)
    _MERGE_STATE["installed"] = True


def worker_setup(tier, rec):
    st = common.install_monitors(rec)
    try:
        install_merge_contract()
    except Exception as e:
        rec.extra.setdefault("contract_install_error", []).append(repr(e)[:200])
    return st


def worker_finish(tier, rec, st):
    common.finish_monitors(rec, st)
    rec.count("merge_contract_evaluations", _MERGE_STATE["n"])


# ------------------------------------------------------------------ dialects
def dialect_spec(rng, i):
    spec = {"name": f"D{i}", "opts": {}, "date": None, "int": None}
    x = rng.random()
    if x < 0.6:
        spec["date"] = rng.choice(["both", "both", "ser", "de", "obj", "obj"])
    if rng.random() < 0.3:
        spec["int"] = "both"
    spec["bytes"] = rng.choice([False, False, False, False, True, True, "de"])      # a type the msgpack format dialect customises itself
    spec["inherit"] = rng.random() < 0.3
    for o in ("omit_none", "omit_default", "serialize_by_alias", "namedtuple_as_dict"):
        if rng.random() < 0.45:
            spec["opts"][o] = rng.random() < 0.65
    if rng.random() < 0.3:
        spec["opts"]["no_copy_collections"] = "(list,)"
    return spec


FMT_SRC = """
import base64
def _mk_fmt():
    g = globals()
    if '_Fmt' not in g:
        class Fmt(SerializationStrategy):
            def __init__(self, tag):
                self.tag = tag
            def serialize(self, d):
                return self.tag + ':' + d.isoformat()
            def deserialize(self, s):
                return datetime.date.fromisoformat(s.split(':', 1)[-1])
        g['_Fmt'] = Fmt
    return g['_Fmt']
"""


def dialect_src(spec, name=None, i=0):
    name = name or spec["name"]
    ss = []
    tag = spec["name"]
    if spec["date"] == "obj":
        # instances of ONE strategy class, told apart only by their state (every dialect has its own)
        ss.append(f"datetime.date: _mk_fmt()({tag!r})")
    elif spec["date"]:
        parts = []
        if spec["date"] in ("both", "ser"):
            parts.append(f"'serialize': (lambda d: '{tag}:' + d.isoformat())")
        if spec["date"] in ("both", "de"):
            parts.append("'deserialize': (lambda s: datetime.date.fromisoformat(s.split(':', 1)[-1]))")
        ss.append("datetime.date: {" + ", ".join(parts) + "}")
    if spec.get("bytes") == "de":
        # read-only: writing is left to the levels below (the class's own registration, the format's pass-through)
        ss.append("bytes: {'deserialize': (lambda s: s if isinstance(s, bytes) else bytes.fromhex(s[4:]) if s.startswith('hex:') else base64.decodebytes(s.encode()))}")
    elif spec.get("bytes"):
        ss.append("bytes: {'serialize': (lambda b: 'hex:' + b.hex()), 'deserialize': (lambda s: bytes.fromhex(s[4:]))}")
    if spec["int"]:
        k = len(tag)
        ss.append(f"int: {{'serialize': (lambda v: v + {k}), 'deserialize': (lambda v: v - {k})}}")
    if spec.get("inherit") and spec["opts"]:
        # the options live on a parent dialect, the dialect in use only inherits them
        lines = [f"class {name}_Base(Dialect):"] + [f"    {o} = {v}" for o, v in spec["opts"].items()]
        lines += [f"class {name}({name}_Base):", "    serialization_strategy = {" + ", ".join(ss) + "}"]
        return "\n".join(lines) + "\n"
    lines = [f"class {name}(Dialect):", "    serialization_strategy = {" + ", ".join(ss) + "}"]
    for o, v in spec["opts"].items():
        lines.append(f"    {o} = {v}")
    return "\n".join(lines) + "\n"


# ------------------------------------------------------------------ part A
def tree_src(base, default_dialect, lazy=False):
    cfg = "    class Config(BaseConfig):\n        code_generation_options = [ADD_DIALECT_SUPPORT]\n"
    if default_dialect:
        cfg += f"        dialect = {default_dialect}\n"
    lazy_cfg = cfg + ("        lazy_compilation = True\n" if lazy else "")
    return f'''
class NT(NamedTuple):
    a: int
    b: str
@dataclass
class Pl:
    pd: datetime.date = datetime.date(1999, 9, 9)
    pb: bytes = b'pl'
@dataclass
class In({base}):
    d: datetime.date = datetime.date(2000, 1, 1)
    o: Optional[int] = None
    al: int = field(default=3, metadata=field_options(alias='AL'))
    raw: bytes = b'xy'
{cfg}
type Tree = In | list[Tree]
@dataclass
class Node({base}):
    v: int = 0
    when: Optional[datetime.date] = None
    nxt: Optional[Self] = None
    kids: List[Self] = field(default_factory=list)
{cfg}        serialization_strategy = {{datetime.date: {{'serialize': (lambda d: 'cfg:' + d.isoformat()), 'deserialize': (lambda s: datetime.date.fromisoformat(s.split(':', 1)[-1]))}}}}
@dataclass
class P({base}):
    x: int = 1
    d: datetime.date = datetime.date(2001, 2, 3)
    n: NT = NT(1, 's')
    i: In = field(default_factory=In)
    l: List[In] = field(default_factory=list)
    o: Optional[str] = None
    ints: List[int] = field(default_factory=list)
    pl: Pl = field(default_factory=Pl)
    tree: Tree = field(default_factory=list)
{lazy_cfg}
@dataclass
class C(P):
    y: datetime.date = datetime.date(2002, 3, 4)
    al2: Optional[datetime.date] = field(default=None, metadata=field_options(alias='AL2'))
    node: Optional[Node] = None
{lazy_cfg}
@dataclass
class Ev({base}):
    when: datetime.date = datetime.date(2005, 5, 5)
{cfg}        discriminator = Discriminator(field='kind', include_subtypes=True)
@dataclass
class EvA(Ev):
    kind: str = 'a'
    extra: Optional[datetime.date] = None
    raw: bytes = b'ev'
@dataclass
class EvB(EvA):
    kind: str = 'b'
@dataclass
class PlB:
    pd: datetime.date = datetime.date(1998, 8, 8)
@dataclass
class PlB1(PlB):
    type: str = 'b1'
    n: int = 0
@dataclass
class Hd({base}):
    e: Ev = field(default_factory=EvA)
    es: List[Ev] = field(default_factory=list)
    pl: Annotated[PlB, Discriminator(field='type', include_subtypes=True)] = field(default_factory=PlB1)
    d: datetime.date = datetime.date(2006, 6, 6)
{lazy_cfg}
'''


def mkval(mod, cls, r):
    import datetime
    D = datetime.date
    if cls == "P":
        return mod.P(r.randint(0, 5), D(2010, 1, r.randint(1, 28)), mod.NT(2, "t"), mod.In(o=r.choice([None, 4])), [mod.In()], r.choice([None, "q"]), [1, 2],
                     tree=r.choice([[], mod.In(D(2016, 1, 1)), [mod.In(D(2017, 1, 1)), [mod.In(D(2018, 1, 1)), []]]]))
    if cls == "C":
        node = r.choice([None, mod.Node(1, D(2015, 5, 5), mod.Node(2, None, None, [mod.Node(3, D(2016, 6, 6))]), [mod.Node(4)])])
        return mod.C(r.randint(0, 5), y=D(2011, 1, 1), al2=r.choice([None, D(2012, 1, 1)]), node=node)
    if cls == "Node":
        return mod.Node(5, r.choice([None, D(2017, 7, 7)]), mod.Node(6, D(2018, 8, 8)), [mod.Node(7, D(2019, 9, 9))])
    if cls == "Ev":
        return r.choice([mod.EvA, mod.EvB])(D(2019, 1, r.randint(1, 28)), extra=r.choice([None, D(2019, 2, 2)]))
    if cls == "Hd":
        return mod.Hd(mod.EvB(D(2020, 3, 3)), [mod.EvA(D(2020, 4, 4), extra=D(2020, 5, 5))], mod.PlB1(D(2020, 6, 6), n=r.randint(0, 3)), D(2020, 7, 7))
    if cls == "Late":
        return mod.Late(r.randint(0, 5), D(2010, 2, r.randint(1, 28)), extra=D(2014, 1, 1), more=mod.In(D(2015, 1, 1)))
    return mod.In(D(2013, 1, 1), r.choice([None, 1]), 4)


FORMAT_BASES = {
    "dict": ("DataClassDictMixin", None, None),
    "orjson": ("DataClassORJSONMixin", "to_jsonb", "from_json"),
    "msgpack": ("DataClassMessagePackMixin", "to_msgpack", "from_msgpack"),
    "yaml": ("DataClassYAMLMixin", "to_yaml", "from_yaml"),
    "json": ("DataClassJSONMixin", "to_json", "from_json"),
}


def norm(v):
    return re.sub(r"c13\w*_\d+\.", "", repr(v))


def part_a(seed, tier, rec, rng):
    fmt = rng.choice(list(FORMAT_BASES))
    base, to_m, from_m = FORMAT_BASES[fmt]
    specs = [dialect_spec(rng, i) for i in range(1, 6)]
    dsrc = FMT_SRC + "".join(dialect_src(s) for s in specs)
    fam = Family("c13a")
    twins = []
    try:
        lazy = rng.random() < 0.35
        fam.exec_src(dsrc + tree_src(base, None, lazy))
        mod = fam.module
        nsteps = rng.randint(4, 12 if tier == "quick" else 40)
        hist = []
        twin_cache = {}
        # a subclass of P defined in the MIDDLE of the history (after P was used with dialects); the twins have it
        # from the start
        late_src = ("@dataclass\nclass Late(P):\n    extra: datetime.date = datetime.date(2003, 4, 5)\n    more: Optional[In] = None\n"
                    "    class Config(BaseConfig):\n        code_generation_options = [ADD_DIALECT_SUPPORT]\n")
        late_at = rng.randint(1, nsteps - 1) if rng.random() < 0.5 else None
        classes_now = ["P", "C", "In", "Node", "Ev", "Hd", "Hd"]
        for step in range(nsteps):
            if step == late_at:
                fam.exec_src(late_src)
                classes_now.append("Late")
            rec.evaluation()
            spec = rng.choice([None] + specs)
            cls = rng.choice(classes_now)
            op = rng.choice(["to_dict", "from_dict"] + ([to_m, from_m] if to_m else []))
            vseed = rng.getrandbits(32)
            dname = spec["name"] if spec else None
            kw = {"dialect": getattr(mod, dname)} if spec else {}
            # twin: fresh family whose Config.dialect is the dialect (built once per dialect per case, AFTER the
            # history started, from the same source)
            if dname not in twin_cache:
                tw = Family("c13t")
                tw.exec_src(dsrc + tree_src(base, dname, lazy) + (late_src.replace("[ADD_DIALECT_SUPPORT]\n", "[ADD_DIALECT_SUPPORT]\n" + (f"        dialect = {dname}\n" if dname else "")) if late_at is not None else ""))
                twins.append(tw)
                twin_cache[dname] = tw.module
            tmod = twin_cache[dname]

            if cls in ("Ev", "Hd"):
                # discriminated hierarchies: only the READING direction is compared (how a subclass instance in a
                # parent-typed position is written differs between code paths whatever the dialect), on a document in the
                # dialect's wire form assembled from the twin's ROOT objects; the very first use may be this call
                op = "from_dict" if (cls == "Hd" or not to_m or rng.random() < 0.5) else from_m

            def run(m, kwargs):
                v = mkval(m, cls, random.Random(vseed))
                K = getattr(m, cls)
                if cls in ("Ev", "Hd"):
                    tv = mkval(tmod, cls, random.Random(vseed))
                    if cls == "Ev":
                        return K.from_dict(tv.to_dict()) if op == "from_dict" and not kwargs else (
                            K.from_dict(tv.to_dict(), **kwargs) if op == "from_dict" else getattr(K, from_m)(getattr(tv, to_m)(), **kwargs))
                    from mashumaro.codecs.basic import BasicEncoder
                    doc = {"e": tv.e.to_dict(), "es": [x.to_dict() for x in tv.es], "pl": BasicEncoder(type(tv.pl)).encode(tv.pl), "d": tv.to_dict()["d"]}
                    return K.from_dict(doc, **kwargs)
                if op == "to_dict":
                    return v.to_dict(**kwargs)
                if op == "from_dict":
                    return K.from_dict(v.to_dict(**kwargs), **kwargs)
                if op == to_m:
                    return getattr(v, to_m)(**kwargs)
                return getattr(K, from_m)(getattr(v, to_m)(**kwargs), **kwargs)
            try:
                got = norm(run(mod, kw))
            except Exception as e:
                got = f"EXC {type(e).__name__}: {e}"[:200]
            try:
                exp = norm(run(tmod, {}))
            except Exception as e:
                exp = f"EXC {type(e).__name__}: {e}"[:200]
            hist.append((cls, op, dname))
            if cls == "Node" and op == "to_dict" and not got.startswith("EXC"):
                # ABSOLUTE: the twin resolves the levels with the same code, so it cannot see a wrong resolution. Node registers
                # dates itself ('cfg:'); a dialect that says how to WRITE dates wins, one that only says how to read them does not
                want = (spec["name"] + ":") if (spec and spec["date"] in ("both", "ser", "obj")) else "cfg:"
                seen = re.findall(r"'when': '([^']*)'", got)
                if seen and any(not x.startswith(want) for x in seen):
                    rec.violation(f"history:{fmt}:to_dict:date-written-by-the-wrong-level", {"format_mixin": base, "dialects": dsrc, "dialect": dname, "observed": got[:400],
                                  "expected_prefix": want}, {"part": "A", "format": fmt, "op": op, "absolute": True})
                elif seen:
                    rec.count("absolute_level_checks")
            if got == exp:
                rec.count("history_agree")
                rec.nontrivial(("A", fmt, cls, op, repr(spec), hash(tuple(hist[-3:]))))
            else:
                rec.violation(f"history:{fmt}:{op}:{'default' if spec is None else 'dialect'}-call-differs-from-twin",
                              {"format_mixin": base, "dialects": dsrc, "history": [list(map(str, h)) for h in hist[-12:]],
                               "observed": got[:500], "expected": exp[:500]},
                              {"part": "A", "format": fmt, "op": op, "dialect_opts": spec["opts"] if spec else None,
                               "history_len": len(hist), "same_dialect_used_before_with_other_op": any(h[2] == dname and h[1] != op for h in hist[:-1])})
        rec.sample({"part": "A", "format_mixin": base, "history": [list(map(str, h)) for h in hist[:8]]})
    finally:
        fam.dispose()
        for t in twins:
            t.dispose()


# ------------------------------------------------------------------ part B
SHAPE_SRC = '''
class NT(NamedTuple):
    a: int
    b: str
@dataclass
class In:
    d: datetime.date = datetime.date(2000, 1, 1)
    al: int = field(default=3, metadata=field_options(alias='AL'))
    class Config(BaseConfig):
        allow_deserialization_not_by_alias = True
@dataclass
class A:
    x: int = field(metadata=field_options(alias='X'))
    d: datetime.date = datetime.date(2001, 2, 3)
    n: NT = NT(1, 's')
    o: Optional[int] = None
    s: str = 'dflt'
    inner: In = field(default_factory=In)
    l: List[datetime.date] = field(default_factory=list)
#BYTES#
    class Config(BaseConfig):
        allow_deserialization_not_by_alias = True
'''


def part_b(seed, tier, rec, rng):
    import msgpack
    import orjson
    import tomllib
    import tomli_w
    import yaml
    from mashumaro.codecs import basic as cb, json as cj, orjson as co, yaml as cy, msgpack as cm, toml as ct
    Loader = getattr(yaml, "CSafeLoader", yaml.SafeLoader)
    Dumper = getattr(yaml, "CDumper", yaml.Dumper)
    FORMATS = {
        "basic": (cb.BasicEncoder, cb.BasicDecoder, lambda d: d, lambda d: d),
        "json": (cj.JSONEncoder, cj.JSONDecoder, json.dumps, json.loads),
        "orjson": (co.ORJSONEncoder, co.ORJSONDecoder, orjson.dumps, orjson.loads),
        "yaml": (cy.YAMLEncoder, cy.YAMLDecoder, lambda d: yaml.dump(d, Dumper=Dumper), lambda s: yaml.load(s, Loader)),
        "msgpack": (cm.MessagePackEncoder, cm.MessagePackDecoder, lambda d: msgpack.packb(d, use_bin_type=True), lambda b: msgpack.unpackb(b, raw=False)),
        "toml": (ct.TOMLEncoder, ct.TOMLDecoder, tomli_w.dumps, tomllib.loads),
    }
    spec = dialect_spec(rng, 1)
    fam = Family("c13b")
    try:
        fam.exec_src(FMT_SRC + SHAPE_SRC.replace("#BYTES#", "    b: bytes = b'ab\\x00'" if spec.get("bytes") else "") + dialect_src(spec, "D") + dialect_src(spec, "Dpristine"))
        mod = fam.module
        import datetime
        vals = [mod.A(1), mod.A(2, datetime.date(2020, 5, 6), mod.NT(3, "q"), 7, "x", mod.In(datetime.date(2021, 1, 1), 9), [datetime.date(2022, 2, 2)]),
                mod.A(3, o=None, s="dflt", l=[])]
        # the reference document: basic codec with a pristine, never-merged copy of the dialect
        ref_enc = cb.BasicEncoder(mod.A, default_dialect=mod.Dpristine)
        ref_dec = cb.BasicDecoder(mod.A, default_dialect=mod.Dpristine)
        order = list(FORMATS)
        rng.shuffle(order)
        for fname in order:
            E, Dc, dump, parse = FORMATS[fname]
            facts = {"part": "B", "format": fname, "order": order, "dialect_opts": spec["opts"], "date_strategy": spec["date"]}
            try:
                enc, dec = E(mod.A, default_dialect=mod.D), Dc(mod.A, default_dialect=mod.D)
            except Exception as e:
                rec.violation(f"codec:{fname}:build-exception:{type(e).__name__}", {"dialect": dialect_src(spec, "D"), "error": str(e)[:300]}, facts)
                continue
            for v in vals:
                rec.evaluation()
                try:
                    basic_doc = ref_enc.encode(v)
                    if fname == "toml" and spec["opts"].get("omit_none") is not False:
                        # TOML's own requirement (no nulls) unless the user dialect explicitly overrides it,
                        # in which case a null is simply not representable (tomli_w refuses it)
                        basic_doc = drop_none(basic_doc)
                    exp = parse(dump(basic_doc)) if fname != "basic" else basic_doc
                except Exception:
                    rec.count("codec_reference_unrepresentable")
                    continue
                try:
                    doc = enc.encode(v)
                    got = parse(doc) if fname != "basic" else doc
                except Exception as e:
                    rec.violation(f"codec:{fname}:encode-exception:{type(e).__name__}", {"dialect": dialect_src(spec, "D"), "value": common.short(v), "error": str(e)[:300]}, facts)
                    continue
                if not same(got, exp, fname):
                    rec.violation(f"codec:{fname}:document-differs-from-basic-codec-under-same-dialect",
                                  {"dialect": dialect_src(spec, "D"), "value": common.short(v), "observed": common.short(got, 400), "expected": common.short(exp, 400), "order": order}, facts)
                    continue
                try:
                    back = dec.decode(doc)
                    exp_back = ref_dec.decode(ref_enc.encode(v))
                except Exception as e:
                    if spec["date"] == "ser" or spec["date"] == "de":
                        rec.count("codec_one_direction_strategy_not_invertible")
                        continue
                    rec.violation(f"codec:{fname}:decode-exception:{type(e).__name__}", {"dialect": dialect_src(spec, "D"), "value": common.short(v), "doc": common.short(doc), "error": str(e)[:300]}, facts)
                    continue
                if norm(back) == norm(exp_back):
                    rec.count("codec_agree")
                    rec.nontrivial(("B", fname, repr(spec), repr(v)))
                else:
                    rec.violation(f"codec:{fname}:decode-differs-from-basic-codec", {"dialect": dialect_src(spec, "D"), "observed": norm(back)[:400], "expected": norm(exp_back)[:400]}, facts)
        for problems in _MERGE_STATE["violations"]:
            rec.violation("Dialect.merge-contract:" + problems[0].split(":")[0][:60], {"problems": problems, "dialect": dialect_src(spec, "D")}, {"part": "B", "contract": True})
        _MERGE_STATE["violations"].clear()
        rec.sample({"part": "B", "dialect": dialect_src(spec, "D"), "order": order})
    finally:
        fam.dispose()


def drop_none(d):
    if isinstance(d, dict):
        return {k: drop_none(v) for k, v in d.items() if v is not None}
    if isinstance(d, list):
        return [drop_none(x) for x in d]
    return d


def same(a, b, fname):
    import datetime
    if isinstance(a, dict) and isinstance(b, dict):
        return list(a.keys()) == list(b.keys()) and all(same(a[k], b[k], fname) for k in a) if fname not in ("toml",) else (
            set(a.keys()) == set(b.keys()) and all(same(a[k], b[k], fname) for k in a))
    if isinstance(a, list) and isinstance(b, list):
        return len(a) == len(b) and all(same(x, y, fname) for x, y in zip(a, b))
    if isinstance(a, (datetime.date, datetime.datetime)) and isinstance(b, str):
        return a.isoformat() == b
    if fname == "msgpack" and isinstance(a, bytes) and isinstance(b, str):
        # a format-native value the dialect says nothing about WRITING: bin on the wire, base64 text in the basic form
        import base64
        return base64.encodebytes(a).decode() == b
    return type(a) is type(b) and a == b


def run_case(seed, tier, rec, st):
    rng = random.Random(seed)
    if rng.random() < 0.6:
        part_a(seed, tier, rec, rng)
    else:
        part_b(seed, tier, rec, rng)
