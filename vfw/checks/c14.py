"""C14 - behaviour is independent of compilation timing, call order and threads."""
from __future__ import annotations

import hashlib
import itertools
import random
import re
import sys
import threading
import time

from ..family import Family
from . import common

LEVEL = "exploration"
RULE = ("case = one random class family (nested, mutually recursive, inherited, generic with two specialisations, "
        "format mixins, optional dialect support) rendered three times from one description: eager, lazy "
        "(lazy_compilation=True) and postponed (PEP 563 with classes referenced before their definition). 'history' "
        "cases run a random permutation of the operation set {to_dict, from_dict, to_<format>, from_<format>} x {no "
        "dialect, D1} x {every class} on a fresh lazy / postponed family; 'threads' cases release 8 threads from a barrier "
        "to make the FIRST calls on a fresh lazy / postponed family while a sys.monitoring LINE callback inside "
        "mashumaro/ and the generated code injects yields (sleep(0), switch interval 1 us). Oracle: every operation's "
        "outcome equals the outcome of the same operation on the eager twin; RecursionError (recursion limit 400) is a "
        "violation. distinct_nontrivial = distinct (family features, mode, operation order / schedule fingerprint).")
RULE += " Additions: codec objects (with a default dialect) between the classes' own calls; per-class Config.orjson_options with an absolute oracle; nested plain dataclass with a never-defined annotation; plain nested dataclasses shared by two lazily compiled holders (first calls from 8 threads)."
ASSUMPTIONS = ["only the interleavings actually produced by the yield injector are observed (fingerprints are reported)",
               "wall-clock never decides: a per-family watchdog only makes the case inconclusive"]
BUDGET_S = {"quick": 240, "thorough": 1500}
CASES_PER_PROCESS = {"quick": 200, "thorough": 400}
MIN_EVENTS = {"quick": {"evaluations": 8000, "op_agree": 8000, "thread_families": 60, "distinct_schedules": 50, "yield_points": 20000},
              "thorough": {"evaluations": 300000, "op_agree": 300000, "thread_families": 2000, "distinct_schedules": 1500, "yield_points": 600000}}

YIELD_TOOL = 3
_Y = {"on": False, "p": 0.05, "seq": [], "n": 0, "rng": random.Random(0), "installed": False, "budget": 0}


def n_cases(tier):
    return 900 if tier == "quick" else 30000


def install_yield_injector():
    if _Y["installed"]:
        return
    mon = sys.monitoring
    mon.use_tool_id(YIELD_TOOL, "vfw-yield")
    import mashumaro
    import os
    mdir = os.path.dirname(mashumaro.__file__)

    def on_line(code, line):
        fn = code.co_filename
        if fn == "<string>" or fn.startswith(mdir):
            if _Y["on"] and _Y["budget"] > 0 and _Y["rng"].random() < _Y["p"]:
                _Y["n"] += 1
                _Y["budget"] -= 1
                _Y["seq"].append(threading.get_ident())
                time.sleep(0)
            return None
        return mon.DISABLE
    mon.register_callback(YIELD_TOOL, mon.events.LINE, on_line)
    _Y["installed"] = True


def worker_setup(tier, rec):
    st = common.install_monitors(rec, coverage=False)
    install_yield_injector()
    sys.setrecursionlimit(400)
    st["schedules"] = set()
    return st


def worker_finish(tier, rec, st):
    common.finish_monitors(rec, st)
    rec.count("distinct_schedules", len(st["schedules"]))
    rec.count("yield_points", _Y["n"])
    rec.count("early_calls_that_failed_as_expected", _EARLY["failed"])
    rec.count("families_with_early_calls", _EARLY["cases"])
    rec.extra.setdefault("exec_events_by_thread_max", []).append(max(common.GEN.by_thread.values()) if common.GEN.by_thread else 0)


# ------------------------------------------------------------------ family description
def features(rng):
    return {
        "mixin": rng.choice(["dict", "orjson", "msgpack", "orjson+msgpack"]),
        "cycle": rng.random() < 0.5,
        "generic": rng.random() < 0.5,
        "child": rng.random() < 0.5,
        "dialect": rng.choice(["all", "all", "none", "outer-only"]),
        "self_ref": rng.random() < 0.6,
        "union": rng.random() < 0.3,
        # a nested PLAIN dataclass one of whose annotations names a class that is never defined (TYPE_CHECKING-only
        # imports look like that); the data never reaches it
        "ghost": rng.random() < 0.25,
        # a nested PLAIN dataclass shared by two holders (its methods are compiled by whichever holder comes first - or
        # by both at once, from two threads)
        "plain_shared": rng.random() < 0.4,
        # (postponed mode) calls made while some referenced classes are still undefined: they fail with
        # UnresolvedTypeReferenceError and must leave nothing behind
        "early_calls": rng.random() < 0.5,
        # codec objects with a default dialect used between the classes' own calls
        "codec_ops": rng.random() < 0.3,
        # class-level orjson options, different per class: honoured whichever class is compiled first
        "orjson_cfg": {c: rng.choice([None, "orjson.OPT_SORT_KEYS", "orjson.OPT_SORT_KEYS | orjson.OPT_INDENT_2", "orjson.OPT_INDENT_2",
                                      "orjson.OPT_APPEND_NEWLINE"]) for c in ("Inner", "Node", "Holder")} if rng.random() < 0.4 else {},
    }


MIXINS = {"dict": "DataClassDictMixin", "orjson": "DataClassORJSONMixin", "msgpack": "DataClassMessagePackMixin",
          "orjson+msgpack": "DataClassORJSONMixin, DataClassMessagePackMixin"}


def blocks(ft, mode):
    base = MIXINS[ft["mixin"]]
    lazy = mode == "lazy"

    def cfg(dialect, cname=None):
        lines = []
        if lazy:
            lines.append("lazy_compilation = True")
        if "orjson" in ft["mixin"] and ft.get("orjson_cfg", {}).get(cname):
            lines.append(f"orjson_options = {ft['orjson_cfg'][cname]}")
        if dialect:
            lines.append("code_generation_options = [ADD_DIALECT_SUPPORT]")
        if not lines:
            return ""
        return "    class Config(BaseConfig):\n" + "".join(f"        {l}\n" for l in lines)
    d_all = ft["dialect"] == "all"
    d_outer = ft["dialect"] in ("all", "outer-only")
    q = (lambda s: repr(s)) if mode != "postponed" else (lambda s: s)   # by-name forward refs need quotes unless PEP 563
    inner = ["@dataclass", f"class Inner({base}):", "    d: datetime.date", "    n: Optional[int] = None", "    b: bytes = b'xy'"]
    if ft["cycle"]:
        inner.append(f"    back: Optional[{q('Node')}] = None")
    inner_src = "\n".join(inner) + "\n" + cfg(d_all, "Inner")
    node = ["@dataclass", f"class Node({base}):", "    v: int = 0", "    inner: Optional[Inner] = None"]
    if ft["self_ref"]:
        node.append(f"    kids: List[{q('Node')}] = field(default_factory=list)")
    if ft["union"]:
        node.append("    u: Union[int, Inner, None] = None")
    # a member declared through field(metadata=...) that Child re-declares with a plain default (no alias there)
    node.append("    tagv: int = field(default=1, metadata=field_options(alias='TG'))")
    node_src = "\n".join(node) + "\n" + cfg(d_all, "Node")
    out = {"Inner": inner_src, "Node": node_src}
    order = ["Inner", "Node"]
    if ft["generic"]:
        out["Page"] = ("T = TypeVar('T')\n@dataclass\n" + f"class Page({base}, Generic[T]):\n    items: List[T] = field(default_factory=list)\n    first: Optional[T] = None\n" + cfg(d_all))
        order.append("Page")
    if ft["child"]:
        out["Child"] = "@dataclass\n" + f"class Child(Node):\n    extra: Optional[datetime.date] = None\n    tagv: int = 5\n" + cfg(d_all, "Node")
        order.append("Child")
    holder = ["@dataclass", f"class Holder({base}):", "    node: Node = field(default_factory=lambda: Node())", "    inners: List[Inner] = field(default_factory=list)"]
    if ft["generic"]:
        holder += ["    p1: Optional[Page[Inner]] = None", "    p2: Optional[Page[int]] = None", "    p3: Optional[Page[datetime.date]] = None",
                   # a class with the same name from ANOTHER module: a distinct specialisation
                   "    p4: Optional[Page[other.Inner]] = None"]
    if ft["child"]:
        holder.append("    child: Optional[Child] = None")
    if ft.get("ghost"):
        out["Ghost"] = "@dataclass\nclass Ghost:\n    g: Optional[" + q("NeverDefinedAnywhere") + "] = None\n    n: int = 0\n"
        order.append("Ghost")
        holder.append("    ghosts: List[Ghost] = field(default_factory=list)")
        holder.append("    ghost: Optional[Ghost] = None")
    if ft.get("plain_shared"):
        out["Addr"] = ("@dataclass\nclass Addr:\n    street: str = ''\n    since: Optional[datetime.date] = None\n    tags: List[str] = field(default_factory=list)\n"
                       "@dataclass\nclass Geo:\n    lat: float = 0.0\n    addr: Optional[Addr] = None\n")
        order.append("Addr")
        holder.append("    addr: Optional[Addr] = None")
        holder.append("    geo: Optional[Geo] = None")
    out["Holder"] = "\n".join(holder) + "\n" + cfg(d_outer, "Holder")
    order.append("Holder")
    if ft.get("plain_shared"):
        out["Holder3"] = "@dataclass\n" + f"class Holder3({base}):\n    addrs: List[Addr] = field(default_factory=list)\n    geo: Optional[Geo] = None\n    main: Optional[Addr] = None\n" + cfg(d_outer)
        order.append("Holder3")
    if ft["generic"]:
        # a second holder whose only specialisation uses the same-named class of the other module: with lazy
        # compilation the order of FIRST CALLS decides which specialisation is compiled first
        out["Holder2"] = "@dataclass\n" + f"class Holder2({base}):\n    q: Optional[Page[other.Inner]] = None\n    n: int = 0\n" + cfg(d_outer)
        order.append("Holder2")
    return out, order


DIALECT_SRC = """
import orjson
class D1(Dialect):
    serialization_strategy = {datetime.date: {'serialize': (lambda d: d.strftime('%d/%m/%Y')),
                                             'deserialize': (lambda s: datetime.date(int(s[6:]), int(s[3:5]), int(s[:2])))}}
"""


def build(ft, mode):
    fam = Family("c14", future_annotations=(mode == "postponed"))
    fam.exec_src(DIALECT_SRC)
    if ft["generic"]:
        other = Family("c14other")
        lazy_cfg = "    class Config(BaseConfig):\n        lazy_compilation = True\n" if mode == "lazy" else ""
        other.exec_src(f"@dataclass\nclass Inner({MIXINS[ft['mixin']]}):\n    s: str = 'o'\n    when: Optional[datetime.datetime] = None\n" + lazy_cfg)
        fam.module.other = other.module
        fam.other = other
    out, order = blocks(ft, mode)
    if mode == "postponed":
        # users of a class are defined BEFORE the class: annotations are unresolved at class creation
        seq = ["Holder"] + [n for n in ("Child",) if n in out]
        # Child(Node) needs its base first: define Node before Child but after Holder
        seq = [n for n in ("Holder3", "Holder2") if n in out] + ["Holder", "Node"] + [n for n in ("Child",) if n in out] + [n for n in ("Page",) if n in out] + ["Inner"] + [n for n in ("Ghost", "Addr") if n in out]
        if "Page" in out:
            # a generic base class must exist before it is subscripted only at runtime use; annotations are strings
            pass
        for n in seq:
            fam.exec_src(out[n])
            if n == "Node" and ft.get("early_calls"):
                early_calls(fam, ft)
    else:
        for n in order:
            fam.exec_src(out[n])
    return fam


def early_calls(fam, ft):
    """Holder and Node exist, Inner (and others) do not yet: every kind of first call is attempted and expected to fail."""
    m = fam.module
    calls = [lambda: m.Holder.from_dict({}), lambda: m.Holder().to_dict(), lambda: m.Node.from_dict({"v": 1}), lambda: m.Node().to_dict()]
    if ft["dialect"] in ("all", "outer-only"):
        calls += [lambda: m.Holder.from_dict({}, dialect=m.D1), lambda: m.Holder().to_dict(dialect=m.D1)]
    if ft["dialect"] == "all":
        calls += [lambda: m.Node.from_dict({"v": 1}, dialect=m.D1), lambda: m.Node().to_dict(dialect=m.D1)]
    if "msgpack" in ft["mixin"]:
        calls.append(lambda: m.Holder().to_msgpack())
    if "orjson" in ft["mixin"]:
        calls.append(lambda: m.Holder().to_jsonb())
    r = random.Random(repr(sorted(map(str, ft.items()))))
    r.shuffle(calls)
    n = 0
    for c in calls[:r.randint(1, len(calls))]:
        try:
            c()
        except Exception:
            n += 1
    _EARLY["failed"] += n
    _EARLY["cases"] += 1


_EARLY = {"failed": 0, "cases": 0}


def make_values(mod, ft):
    import datetime
    D = datetime.date
    inner = mod.Inner(D(2020, 1, 2), 5, b"\x00\xffz")
    node = mod.Node(1, inner)
    if ft["self_ref"]:
        node.kids = [mod.Node(2, mod.Inner(D(1999, 12, 31)))]
    if ft["cycle"]:
        inner.back = mod.Node(9)
    if ft["union"]:
        node.u = mod.Inner(D(2001, 1, 1))
    vals = {"Inner": inner, "Node": node}
    h = mod.Holder(node, [inner])
    if ft["generic"]:
        h.p1 = mod.Page([inner], inner)
        h.p2 = mod.Page([1, 2], 3)
        h.p3 = mod.Page([D(2010, 10, 10)], None)
        h.p4 = mod.Page([mod.other.Inner("q", datetime.datetime(2020, 1, 2, 3, 4, 5))], mod.other.Inner("first"))
    if ft["child"]:
        vals["Child"] = mod.Child(3, inner, extra=D(2022, 2, 2), tagv=7)
        h.child = vals["Child"]
    if ft.get("plain_shared"):
        a = mod.Addr("Main St", D(2011, 11, 11), ["x"])
        h.addr = a
        h.geo = mod.Geo(1.5, mod.Addr("Side", None, []))
        vals["Holder3"] = mod.Holder3([a, mod.Addr("B")], mod.Geo(2.5, a), mod.Addr("C", D(2000, 1, 1)))
    vals["Holder"] = h
    if ft["generic"]:
        vals["Holder2"] = mod.Holder2(mod.Page([mod.other.Inner("z")], mod.other.Inner("y", datetime.datetime(2001, 2, 3, 4, 5, 6))), 7)
    return vals


def norm(v):
    return re.sub(r"c14(other)?_\d+\.", lambda m: "other." if m.group(1) else "", repr(v))


def op_list(ft):
    """(name, class, method kind, format, dialect?)"""
    fmts = [("dict", "to_dict", "from_dict")]
    if "orjson" in ft["mixin"]:
        fmts.append(("json", "to_jsonb", "from_json"))
    if "msgpack" in ft["mixin"]:
        fmts.append(("msgpack", "to_msgpack", "from_msgpack"))
    classes = ["Holder", "Node", "Inner"] + (["Child"] if ft["child"] else []) + (["Holder2"] if ft["generic"] else []) + (["Holder3"] if ft.get("plain_shared") else [])
    ops = []
    for c in classes:
        has_d = ft["dialect"] == "all" or (ft["dialect"] == "outer-only" and c in ("Holder", "Holder2", "Holder3"))
        for f, to_m, from_m in fmts:
            for dial in ([False, True] if has_d else [False]):
                ops.append((c, to_m, from_m, "to", dial, ""))
                ops.append((c, to_m, from_m, "from", dial, ""))
                if to_m == "to_jsonb":
                    # per-call encoder options (also on the very first, compiling, call of a lazy class)
                    ops.append((c, to_m, from_m, "to", dial, "orjson_options"))
        if ft.get("codec_ops"):
            # codec objects for the class, with and without a default dialect: they compile into holders of their own
            # and must leave the class's own methods alone (and vice versa)
            for cd in ("", "D1"):
                ops.append((c, "codec-encode", "codec-decode", "to", False, cd or "plain"))
                ops.append((c, "codec-encode", "codec-decode", "from", False, cd or "plain"))
            # codec objects of the formats that merge a user dialect into their own, all given the SAME user dialect
            ops.append((c, "codec-encode", "codec-decode", "to", False, "D1:orjson"))
            ops.append((c, "codec-encode", "codec-decode", "from", False, "D1:msgpack"))
            ops.append((c, "codec-encode", "codec-decode", "to", False, "D1:msgpack"))
        if "orjson" in ft["mixin"] and ft.get("orjson_cfg", {}).get("Node" if c == "Child" else c):
            ops.append((c, "to_jsonb", "from_json", "to", False, "config-options-honoured"))
            if has_d:
                ops.append((c, "to_jsonb", "from_json", "to", True, "config-options-honoured"))
    return ops


def run_op(mod, vals, op):
    c, to_m, from_m, direction, dial, extra = op
    kw = {"dialect": mod.D1} if dial else {}
    v = vals[c]
    if extra == "orjson_options":
        import orjson
        return getattr(v, to_m)(orjson_options=orjson.OPT_INDENT_2 | orjson.OPT_SORT_KEYS, **kw)
    if extra == "config-options-honoured":
        # ABSOLUTE oracle (the twin lives in the same process): the document is what orjson makes of the pre-dump tree
        # under the options this class declares
        import orjson
        tree = v.to_jsonb(encoder=lambda x, **k: x, **kw)
        return v.to_jsonb(**kw) == orjson.dumps(tree, option=eval(_FT["orjson_cfg"]["Node" if c == "Child" else c], {"orjson": orjson}))
    if to_m == "codec-encode":
        from mashumaro.codecs.basic import BasicDecoder, BasicEncoder
        cls = getattr(mod, c)
        if ":" in extra:
            if extra.endswith("orjson"):
                from mashumaro.codecs.orjson import ORJSONDecoder as FD, ORJSONEncoder as FE
            else:
                from mashumaro.codecs.msgpack import MessagePackDecoder as FD, MessagePackEncoder as FE
            doc = FE(cls, default_dialect=mod.D1).encode(v)
            return doc if direction == "to" else norm(FD(cls, default_dialect=mod.D1).decode(doc))
        dd = {"default_dialect": mod.D1} if extra == "D1" else {}
        doc = BasicEncoder(cls, **dd).encode(v)
        if direction == "to":
            return norm(doc)
        return norm(BasicDecoder(cls, **dd).decode(doc))
    doc = getattr(v, to_m)(**kw)
    if direction == "to":
        return doc if isinstance(doc, (bytes, str)) else norm(doc)
    return norm(getattr(getattr(mod, c), from_m)(doc, **kw))


_FT = {}


def outcome(fn):
    try:
        return ("ok", fn())
    except RecursionError:
        return ("RecursionError", "")
    except Exception as e:
        return ("exc", f"{type(e).__name__}: {e}"[:160])


def nofield_history_case(rng, tier, rec, st):
    """field-less discriminator with SEVERAL classes accepting an input: which one wins is a function of the class
    definitions (their place in the class tree), not of whether the first call happened before or after some of them
    were defined.  Subject: define a prefix, call, define the rest, call.  Twin: define everything, then call."""
    from mashumaro.codecs.basic import BasicDecoder
    style = rng.choice(["annotated", "config"])
    base = "(DataClassDictMixin)" if style == "config" or rng.random() < 0.5 else ""
    cfgsrc = "    class Config(BaseConfig):\n        discriminator = Discriminator(include_subtypes=True, include_supertypes=True)\n" if style == "config" else ""
    defs = [f"@dataclass\nclass R{base}:\n    r: int = 0\n{cfgsrc}"]
    names = ["R"]
    for i in range(rng.randint(3, 6)):
        parent = rng.choice(names)
        name = f"K{i}"
        kindf = rng.choice(["req", "req", "catchall"])
        body = f"    k{i}: int\n" if kindf == "req" else f"    d{i}: int = 0\n"
        # required members after defaulted ones: keyword-only keeps every layout legal
        defs.append(f"@dataclass(kw_only=True)\nclass {name}({parent}):\n{body}")
        names.append(name)
    cut = rng.randint(1, len(defs) - 1)
    inputs = [{}, {"r": 1}] + [{f"k{i}": 1} for i in range(len(defs))] + [{f"k{i}": 1, f"k{j}": 2} for i in range(4) for j in range(i + 1, 5)]

    def decoder(mod):
        if style == "config":
            return mod.R.from_dict
        return BasicDecoder(eval("Annotated[R, Discriminator(include_subtypes=True, include_supertypes=True)]", mod.__dict__)).decode

    def run(dec, d):
        try:
            return type(dec(dict(d))).__name__
        except Exception as e:
            return "raise:" + type(e).__name__
    subject, twin = Family("c14n"), Family("c14nt")
    try:
        twin.exec_src("".join(defs))
        tdec = decoder(twin.module)
        expected = {repr(d): run(tdec, d) for d in inputs}
        subject.exec_src("".join(defs[:cut]))
        sdec = decoder(subject.module)
        early = rng.sample(inputs, 3)
        for d in early:
            run(sdec, d)                        # the first calls, before the remaining classes exist
        subject.exec_src("".join(defs[cut:]))
        for d in inputs:
            rec.evaluation()
            got = run(sdec, d)
            if got == expected[repr(d)]:
                rec.count("nofield_history_agree")
                rec.nontrivial(("nofield-history", style, cut, len(defs), repr(d)))
            else:
                rec.violation(f"nofield-history:{style}:result-depends-on-when-the-first-call-happened",
                              {"source": "".join(defs), "defined_before_first_call": cut, "input": repr(d), "with_history": got, "all_defined_first": expected[repr(d)],
                               "early_inputs": [repr(x) for x in early]}, {"scenario": "nofield-history", "style": style})
    finally:
        subject.dispose()
        twin.dispose()


def threaded_discriminator_case(rng, tier, rec, st, seed):
    """many PLAIN variants behind an Annotated discriminator; their base already has a compiled method (it is a member of another
    class). Eight threads make the first dispatches at once, with yield injection: every result is the tagged class with its own
    members read - whatever another thread is registering or compiling at that moment."""
    fam = Family("c14d")
    try:
        nvar = rng.randint(8, 24)
        tagger = rng.random() < 0.3
        src = "@dataclass\nclass B:\n    x: int = 0\n"
        for i in range(nvar):
            src += f"@dataclass\nclass V{i}(B):\n" + ("" if tagger else f"    t = 't{i}'\n") + f"    y{i}: int = 0\n    when{i}: Optional[datetime.date] = None\n"
        if tagger:
            src += "def tag_of(cls):\n    return 't' + cls.__name__[1:]\n"
        disc = "Discriminator(field='t', include_subtypes=True" + (", variant_tagger_fn=tag_of)" if tagger else ")")
        src += ("@dataclass\nclass Other(DataClassDictMixin):\n    b: Optional[B] = None\n"
                f"@dataclass\nclass Hold(DataClassDictMixin):\n    v: Annotated[B, {disc}]\n    vs: List[Annotated[B, {disc}]] = field(default_factory=list)\n")
        fam.exec_src(src)
        m = fam.module
        if rng.random() < 0.8:
            m.Other.from_dict({"b": {"x": 1}})         # B gets a compiled method of its own: every variant INHERITS it until it is compiled itself
        T = 8
        bar = threading.Barrier(T)
        results, lock = [], threading.Lock()
        _Y["seq"] = []
        _Y["rng"] = random.Random(seed)
        _Y["p"] = rng.choice([0.02, 0.05, 0.15])
        _Y["budget"] = 6000
        old_sw = sys.getswitchinterval()
        sys.setswitchinterval(1e-6)

        def worker(i):
            r = random.Random(seed * 17 + i)
            try:
                bar.wait(timeout=30)
            except Exception:
                return
            for _ in range(6):
                k = r.randrange(nvar)
                doc = {"v": {"t": f"t{k}", "x": 1, f"y{k}": 5, f"when{k}": "2020-01-02"}, "vs": [{"t": f"t{(k + 1) % nvar}", f"y{(k + 1) % nvar}": 7}]}
                try:
                    h = m.Hold.from_dict(doc)
                    got = (type(h.v).__name__, getattr(h.v, f"y{k}", None), str(getattr(h.v, f"when{k}", None)), type(h.vs[0]).__name__, getattr(h.vs[0], f"y{(k + 1) % nvar}", None))
                except Exception as e:
                    got = ("EXC", f"{type(e).__name__}: {e}"[:160], repr(e.__context__)[:120])
                with lock:
                    results.append((i, k, got))
        ts = [threading.Thread(target=worker, args=(i,), daemon=True) for i in range(T)]
        mon = sys.monitoring
        mon.set_events(YIELD_TOOL, mon.events.LINE)
        mon.restart_events()
        _Y["on"] = True
        for t in ts:
            t.start()
        for t in ts:
            t.join(timeout=60)
        _Y["on"] = False
        mon.set_events(YIELD_TOOL, 0)
        sys.setswitchinterval(old_sw)
        if any(t.is_alive() for t in ts):
            rec.count("thread_watchdog_inconclusive")
            return
        seq = [k for k, _ in itertools.groupby(_Y["seq"])]
        fp = hashlib.blake2b(repr(seq).encode(), digest_size=8).hexdigest()
        st["schedules"].add(fp)
        rec.count("thread_families")
        rec.count("thread_handoffs", len(seq))
        for i, k, got in results:
            rec.evaluation()
            exp = (f"V{k}", 5, "2020-01-02", f"V{(k + 1) % nvar}", 7)
            if got == exp:
                rec.count("op_agree")
                rec.count("threaded_dispatch_agree")
            else:
                rec.violation(f"threads:discriminator:{'exception' if got[0] == 'EXC' else 'wrong-variant-or-members-not-read'}",
                              {"variants": nvar, "tagger": tagger, "thread": i, "observed": str(got)[:300], "expected": str(exp), "schedule": fp, "source": src[-700:]},
                              {"threads": True, "scenario": "threaded-discriminator", "kind": "value" if got[0] != "EXC" else "exc"})
        rec.nontrivial(("threaded-discriminator", nvar, tagger, fp))
    finally:
        fam.dispose()


def run_case(seed, tier, rec, st):
    rng = random.Random(seed)
    if rng.random() < 0.06:
        return nofield_history_case(rng, tier, rec, st)
    if rng.random() < 0.06:
        return threaded_discriminator_case(rng, tier, rec, st, seed)
    ft = features(rng)
    _FT.clear()
    _FT.update(ft)
    mode = rng.choice(["lazy", "postponed", "lazy", "postponed", "eager"])
    threads = rng.random() < 0.25
    ops = op_list(ft)
    fams = []
    try:
        # ---- reference: eager twin, canonical order
        try:
            eager = build(ft, "eager")
        except Exception as e:
            rec.violation(f"eager-family-build:{type(e).__name__}", {"features": ft, "error": f"{type(e).__name__}: {e}"[:300]},
                          {"features": ft, "kind": type(e).__name__, "mode": "eager"})
            return
        fams.append(eager)
        evals = make_values(eager.module, ft)
        ref = {op: outcome(lambda op=op: run_op(eager.module, evals, op)) for op in ops}
        # ---- subject
        try:
            fam = build(ft, mode)
        except RecursionError:
            rec.violation(f"family-build:{mode}:RecursionError", {"features": ft, "mode": mode}, {"features": ft, "mode": mode})
            return
        except Exception as e:
            rec.violation(f"family-build:{mode}:{type(e).__name__}", {"features": ft, "mode": mode, "error": f"{type(e).__name__}: {e}"[:300]},
                          {"features": ft, "mode": mode})
            return
        fams.append(fam)
        vals = make_values(fam.module, ft)
        facts = {"features": ft, "mode": mode, "threads": threads}
        if not threads:
            order = list(ops)
            rng.shuffle(order)
            done = []
            for op in order:
                rec.evaluation()
                got = outcome(lambda: run_op(fam.module, vals, op))
                done.append(op_name(op))
                judge(rec, ft, mode, op, got, ref[op], done, facts, fam)
            rec.nontrivial((repr(sorted(ft.items())), mode, tuple(done[:6])))
            rec.sample({"features": ft, "mode": mode, "order": done[:8]})
        else:
            T = 8
            bar = threading.Barrier(T)
            results = []
            lock = threading.Lock()
            _Y["seq"] = []
            _Y["rng"] = random.Random(seed)
            _Y["p"] = rng.choice([0.01, 0.03, 0.1])
            _Y["budget"] = 4000     # yields injected per family (the first calls are what matters)
            old_sw = sys.getswitchinterval()
            sys.setswitchinterval(1e-6)

            def worker(i):
                r = random.Random(seed * 31 + i)
                mine = list(ops)
                r.shuffle(mine)
                mine = mine[:5]
                try:
                    bar.wait(timeout=30)
                except Exception:
                    return
                for op in mine:
                    got = outcome(lambda: run_op(fam.module, vals, op))
                    with lock:
                        results.append((i, op, got))
            ts = [threading.Thread(target=worker, args=(i,), daemon=True) for i in range(T)]
            mon = sys.monitoring
            mon.set_events(YIELD_TOOL, mon.events.LINE)
            mon.restart_events()
            _Y["on"] = True
            t0 = time.time()
            for t in ts:
                t.start()
            for t in ts:
                t.join(timeout=60)
            _Y["on"] = False
            mon.set_events(YIELD_TOOL, 0)
            sys.setswitchinterval(old_sw)
            if any(t.is_alive() for t in ts):
                rec.count("thread_watchdog_inconclusive")
                return
            seq = [k for k, _ in itertools.groupby(_Y["seq"])]
            fp = hashlib.blake2b(repr(seq).encode(), digest_size=8).hexdigest()
            st["schedules"].add(fp)
            rec.count("thread_families")
            rec.count("thread_handoffs", len(seq))
            for i, op, got in results:
                rec.evaluation()
                judge(rec, ft, mode, op, got, ref[op], [f"thread{i}"], dict(facts, schedule=fp), fam)
            rec.nontrivial((repr(sorted(ft.items())), mode, "threads", fp))
            rec.sample({"features": ft, "mode": mode, "threads": T, "schedule_fingerprint": fp, "handoffs": len(seq), "yield_p": _Y["p"]})
    finally:
        for f in fams:
            f.dispose()
            if getattr(f, "other", None):
                f.other.dispose()


def op_name(op):
    c, to_m, from_m, direction, dial, extra = op
    return f"{c}.{to_m if direction == 'to' else from_m}({'dialect=D1' if dial else ''}{' orjson_options=INDENT|SORT' if extra else ''})"


def judge(rec, ft, mode, op, got, exp, done, facts, fam):
    if op[5] == "config-options-honoured":
        for which, o in (("subject", got), ("eager", exp)):
            if o == ("ok", True):
                rec.count("orjson_config_options_honoured")
            else:
                rec.violation(f"{mode if which == 'subject' else 'eager'}:orjson-config-options-not-honoured", {"features": ft, "class": op[0], "outcome": str(o)[:300],
                              "source": "".join(fam.sources[1:])}, dict(facts, op_class=op[0], kind="orjson-config"))
        return
    if got == exp:
        rec.count("op_agree")
        return
    if exp[0] == "exc" and got[0] == "exc":
        # the operation fails on the eager twin as well (a defect of another property, e.g. generic
        # specialisations under a call dialect): mode-independence holds, the message may differ
        rec.count("op_fails_in_both_modes")
        return
    kind = got[0] if got[0] != "ok" else "value"
    c, to_m, from_m, direction, dial, extra = op
    rec.violation(f"{mode}:{'threads' if facts.get('threads') else 'history'}:{kind}:{to_m if direction == 'to' else from_m}:{'dialect' if dial else 'nodialect'}",
                  {"features": ft, "mode": mode, "op": op_name(op), "ops_so_far": done[-10:], "observed": str(got)[:400], "expected_eager": str(exp)[:400],
                   "source": "".join(fam.sources[1:])},
                  dict(facts, op_class=c, op_method=to_m if direction == "to" else from_m, dialect=dial, first_op=len(done) <= 1, kind=kind,
                       msg=got[1][:100] if got[0] != "ok" else None))
