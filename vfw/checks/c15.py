"""C15 - all entry points agree."""
from __future__ import annotations

import random

from .. import tast
from ..family import Family
from ..gen import TypeGen
from ..hostile import mutations
from ..ref import deep_eq, fingerprint
from ..values import Gen
from . import common

LEVEL = "exploration"
RULE = ("case = random family + type T (often a dataclass, plain or mixin, with aliases / unions / Config; also Annotated, "
        "Optional and generic specialisations whose arguments are same-named classes of two modules; unions of 2-3 dataclasses in any order with a value of each member). For every value the "
        "results of ALL entry points are compared pairwise: mixin to_dict/from_dict, BasicEncoder/BasicDecoder(T), one-shot "
        "encode/decode, T inside List / Dict[str, .] / Optional / Tuple[., int] codecs, T as field of a mixin dataclass and of "
        "a plain dataclass driven through a codec; decoding is compared on the valid document and on hostile variants "
        "(same value or both raise). Between observations further codecs, subclasses and format codecs for T are created "
        "and the earlier encoders are re-checked (history invariance). distinct_nontrivial = distinct (type shape, value / "
        "input fingerprint) pairs.")
RULE += " Additions: ancestors compiled as members of a mixin class first; a dialect taking over a format-native type through the call keyword, Config.dialect and codec default_dialect."
ASSUMPTIONS = ["agreement is relational: a defect shared by all entry points (e.g. finding F20) is invisible here by design",
               "exception classes may differ between entry points (InvalidFieldValue vs ValueError); only raise-vs-return and values are compared"]
BUDGET_S = {"quick": 150, "thorough": 1200}
CASES_PER_PROCESS = {"quick": 400, "thorough": 600}
MIN_EVENTS = {"quick": {"evaluations": 10000, "encode_all_agree": 5000, "decode_all_agree": 5000},
              "thorough": {"evaluations": 300000, "encode_all_agree": 150000, "decode_all_agree": 150000}}


def n_cases(tier):
    return 2500 if tier == "quick" else 60000


def worker_setup(tier, rec):
    return common.install_monitors(rec)


def worker_finish(tier, rec, st):
    common.finish_monitors(rec, st)


def config_fn(rng):
    cfg = common.safe_config(rng)
    x = rng.random()
    if x < 0.25:
        cfg["serialize_by_alias"] = "True"
        cfg["_aliases"] = True
    elif x < 0.4:
        cfg["allow_deserialization_not_by_alias"] = "True"
        cfg["_aliases"] = True
    return cfg


def format_dialect_entry_points(rng, rec):
    """a dialect that takes over a type the format keeps native, handed in through every door: the call keyword of the
    format mixin methods, Config.dialect, and the default_dialect of codec objects / one-shot functions - all agree."""
    import msgpack
    from mashumaro.codecs.msgpack import MessagePackDecoder, MessagePackEncoder
    fam = Family("c15f")
    try:
        way = rng.choice(["both", "both", "serialize-only", "deserialize-only"])
        reg = {"both": "{'serialize': bytes.hex, 'deserialize': bytes.fromhex}", "serialize-only": "{'serialize': bytes.hex}",
               "deserialize-only": "{'deserialize': bytes.fromhex}"}[way]
        tkey = rng.choice(["bytes", "bytes", "bytearray"])
        if tkey == "bytearray":
            reg = reg.replace("bytes.hex", "(lambda v: bytes(v).hex())").replace("bytes.fromhex", "bytearray.fromhex")
        lazy = "        lazy_compilation = True\n" if rng.random() < 0.3 else ""
        fam.exec_src(f"class HexD(Dialect):\n    serialization_strategy = {{{tkey}: {reg}}}\n"
                     f"@dataclass\nclass MP(DataClassMessagePackMixin):\n    b: {tkey}\n    n: int = 0\n    bs: List[{tkey}] = field(default_factory=list)\n    nxt: Optional[Self] = None\n"
                     f"    class Config(BaseConfig):\n        code_generation_options = [ADD_DIALECT_SUPPORT]\n{lazy}"
                     f"@dataclass\nclass MPC(DataClassMessagePackMixin):\n    b: {tkey}\n    n: int = 0\n    bs: List[{tkey}] = field(default_factory=list)\n    nxt: Optional[Self] = None\n"
                     f"    class Config(BaseConfig):\n        dialect = HexD\n{lazy}"
                     f"@dataclass\nclass PL:\n    b: {tkey}\n    n: int = 0\n    bs: List[{tkey}] = field(default_factory=list)\n    nxt: Optional[Self] = None\n")
        m = fam.module
        mk = bytes if tkey == "bytes" else bytearray
        val = dict(b=mk(b"\xde\xad"), n=1, bs=[mk(b"\x00\x01")])
        # without any dialect first or last: the mixin method, the codec object and the one-shot function write the same
        # document, also for the nodes below a Self-typed member
        from mashumaro.codecs.msgpack import encode as mp_encode
        def nodialect():
            rec.evaluation()
            obj = m.MP(**val, nxt=m.MP(b=mk(b"\x01"), nxt=m.MP(b=mk(b""))))
            nd = {}
            for name, fn in (("mixin", lambda: obj.to_msgpack()), ("codec", lambda: MessagePackEncoder(m.MP).encode(obj)), ("function", lambda: mp_encode(obj, m.MP)),
                             ("mixin(encoder=)", lambda: msgpack.packb(obj.to_msgpack(encoder=lambda d: d), use_bin_type=True))):
                try:
                    nd[name] = ("ok", msgpack.unpackb(fn(), raw=False))
                except Exception as e:
                    nd[name] = ("raise", f"{type(e).__name__}: {e}"[:120])
            def raw_below(x):
                return x is None or (isinstance(x.get("b"), bytes) and raw_below(x.get("nxt")))
            if len({repr(v) for v in nd.values()}) == 1 and nd["mixin"][0] == "ok" and raw_below(nd["mixin"][1]):
                rec.count("format_dialect_entry_points_agree")
            else:
                rec.violation("format-dialect:plain-entry-points-disagree-or-lose-the-format-below-Self", {"source": "".join(fam.sources[1:]), "documents": {k: common.short(v, 300) for k, v in nd.items()}},
                              {"scenario": "format-dialect", "way": "none"})
        before = rng.random() < 0.5
        if before:
            nodialect()
        docs = {}
        routes = [("mixin(dialect=)", lambda: m.MP(**val).to_msgpack(dialect=m.HexD)), ("Config.dialect", lambda: m.MPC(**val).to_msgpack()),
                  # a custom encoder together with the dialect (possibly on the very first call for that dialect)
                  ("mixin(encoder=, dialect=)", lambda: msgpack.packb(m.MP(**val).to_msgpack(encoder=lambda d: {"wrapped": d}, dialect=m.HexD)["wrapped"], use_bin_type=True)),
                  ("codec(default_dialect=)", lambda: MessagePackEncoder(m.MP, default_dialect=m.HexD).encode(m.MP(**val))),
                  ("codec-plain-class(default_dialect=)", lambda: MessagePackEncoder(m.PL, default_dialect=m.HexD).encode(m.PL(**val)))]
        rng.shuffle(routes)
        for name, fn in routes:
            rec.evaluation()
            try:
                docs[name] = ("ok", msgpack.unpackb(fn(), raw=False))
            except Exception as e:
                docs[name] = ("raise", f"{type(e).__name__}: {e}"[:120])
        first = docs[routes[0][0]]
        det = {"source": "".join(fam.sources[1:]), "way": way, "order": [r[0] for r in routes]}
        if all(d == first for d in docs.values()) and first[0] == "ok":
            rec.count("format_dialect_entry_points_agree")
            rec.nontrivial(("format-dialect", way, tkey, "encode", tuple(r[0] for r in routes)))
        else:
            rec.violation("format-dialect:encode-entry-points-disagree", dict(det, documents={k: common.short(v, 200) for k, v in docs.items()}), {"scenario": "format-dialect", "way": way})
        # decoding: every door reads the same document the same way
        wire_b = val["b"].hex() if way in ("both", "deserialize-only") else bytes(val["b"])
        wire_bs = [x.hex() if way in ("both", "deserialize-only") else bytes(x) for x in val["bs"]]
        doc = msgpack.packb({"b": wire_b, "n": 1, "bs": wire_bs}, use_bin_type=True)
        droutes = [("mixin(dialect=)", lambda: m.MP.from_msgpack(doc, dialect=m.HexD)), ("Config.dialect", lambda: m.MPC.from_msgpack(doc)),
                   ("codec(default_dialect=)", lambda: MessagePackDecoder(m.MP, default_dialect=m.HexD).decode(doc)),
                   ("codec-plain-class(default_dialect=)", lambda: MessagePackDecoder(m.PL, default_dialect=m.HexD).decode(doc))]
        rng.shuffle(droutes)
        outs = {}
        for name, fn in droutes:
            rec.evaluation()
            try:
                o = fn()
                outs[name] = ("ok", (type(o.b).__name__, bytes(o.b), o.n, [(type(x).__name__, bytes(x)) for x in o.bs]))
            except Exception as e:
                outs[name] = ("raise", type(e).__name__)
        exp = ("ok", (tkey, bytes(val["b"]), 1, [(tkey, bytes(x)) for x in val["bs"]]))
        if all(o == exp for o in outs.values()):
            rec.count("format_dialect_entry_points_agree")
            rec.nontrivial(("format-dialect", way, tkey, "decode", tuple(r[0] for r in droutes)))
        else:
            rec.violation("format-dialect:decode-entry-points-disagree", dict(det, outcomes={k: common.short(v, 200) for k, v in outs.items()}, expected=common.short(exp, 200)),
                          {"scenario": "format-dialect", "way": way})
        if not before:
            nodialect()
    finally:
        fam.dispose()


def subclass_instance_case(rng, rec):
    """an instance of a SUBCLASS in a member typed by its parent (a conforming value): every entry point writes the same document."""
    from mashumaro.codecs.basic import BasicEncoder
    fam = Family("c15s")
    try:
        mix = rng.random() < 0.6
        base = "(DataClassDictMixin)" if mix else ""
        fam.exec_src(f"@dataclass\nclass A{base}:\n    a: int = 0\n@dataclass\nclass B(A):\n    b: int = 1\n"
                     "@dataclass\nclass H(DataClassDictMixin):\n    x: A\n    xs: List[A] = field(default_factory=list)\n    o: Optional[A] = None\n"
                     "@dataclass\nclass HP:\n    x: A\n    xs: List[A] = field(default_factory=list)\n    o: Optional[A] = None\n")
        m = fam.module
        v = m.B(rng.randint(0, 9), rng.randint(0, 9))
        docs = {"holder.to_dict": m.H(v, [v], v).to_dict(), "codec(holder)": BasicEncoder(m.H).encode(m.H(v, [v], v)), "codec(plain holder)": BasicEncoder(m.HP).encode(m.HP(v, [v], v)),
                "codec(List)": {"x": BasicEncoder(eval("List[A]", m.__dict__)).encode([v])[0], "xs": BasicEncoder(eval("List[A]", m.__dict__)).encode([v]), "o": BasicEncoder(eval("Optional[A]", m.__dict__)).encode(v)}}
        rec.evaluation()
        first = docs["holder.to_dict"]
        if all(d == first for d in docs.values()):
            rec.count("encode_all_agree")
            rec.count("subclass_instance_entry_points_agree")
            rec.nontrivial(("subclass-instance", mix))
        else:
            rec.violation("subclass-instance:encode-entry-points-disagree", {"members_are_mixin_classes": mix, "documents": {k: common.short(d, 200) for k, d in docs.items()},
                          "source": "".join(fam.sources[1:])}, {"scenario": "subclass-instance-in-parent-typed-member", "members_are_mixin_classes": mix,
                                                                  "only_difference_is_subclass_members_dropped_by_codecs": all(
                                                                      d == first or d == {"x": {"a": v.a}, "xs": [{"a": v.a}], "o": {"a": v.a}} for d in docs.values())})
    finally:
        fam.dispose()


def two_hierarchies_in_one_field(rng, rec):
    """two tagged hierarchies with EQUAL discriminator settings and overlapping tags inside one member: the mixin method, codecs for
    the mixin class, for its plain twin and for the bare shape all keep the two registries apart."""
    from mashumaro.codecs.basic import BasicDecoder
    fam = Family("c15h")
    try:
        D = "Discriminator(field='k', include_subtypes=True)"
        fam.exec_src("@dataclass\nclass Shape:\n    pass\n@dataclass\nclass Circle(Shape):\n    k = 'c'\n    r: int = 0\n@dataclass\nclass Square(Shape):\n    k = 's'\n"
                     "@dataclass\nclass Style:\n    pass\n@dataclass\nclass Crisp(Style):\n    k = 'c'\n    w: int = 0\n@dataclass\nclass Soft(Style):\n    k = 's'\n"
                     f"Pair = Tuple[Annotated[Shape, {D}], Annotated[Style, {D}]]\n"
                     "@dataclass\nclass HM(DataClassDictMixin):\n    items: List[Pair]\n    one: Optional[Pair] = None\n"
                     "@dataclass\nclass HP:\n    items: List[Pair]\n    one: Optional[Pair] = None\n")
        m = fam.module
        doc = {"items": [[{"k": "c", "r": 1}, {"k": "c", "w": 2}], [{"k": "s"}, {"k": "s"}]], "one": [{"k": "s"}, {"k": "c"}]}
        want = [("Circle", "Crisp"), ("Square", "Soft"), ("Square", "Crisp")]
        routes = [("mixin", lambda: m.HM.from_dict(doc)), ("codec(mixin class)", lambda: BasicDecoder(m.HM).decode(doc)), ("codec(plain twin)", lambda: BasicDecoder(m.HP).decode(doc)),
                  ("codec(shape)", lambda: m.HP(BasicDecoder(eval("List[Pair]", m.__dict__)).decode(doc["items"]), BasicDecoder(eval("Pair", m.__dict__)).decode(doc["one"])))]
        rng.shuffle(routes)
        for name, fn in routes:
            rec.evaluation()
            try:
                r = fn()
                got = [(type(a).__name__, type(b).__name__) for a, b in list(r.items) + [r.one]]
            except Exception as e:
                got = f"{type(e).__name__}: {e}"[:200]
            if got == want:
                rec.count("decode_all_agree")
                rec.count("two_hierarchies_one_field_ok")
                rec.nontrivial(("two-hierarchies", name, tuple(r[0] for r in routes)))
            else:
                rec.violation(f"two-hierarchies-in-one-field:{name.split('(')[0]}:wrong-classes", {"route": name, "order": [r[0] for r in routes], "observed": got, "expected": want,
                              "source": "".join(fam.sources[1:])}, {"scenario": "two-hierarchies"})
    finally:
        fam.dispose()


def run_case(seed, tier, rec, st):
    from mashumaro.codecs.basic import BasicDecoder, BasicEncoder
    import mashumaro.codecs.basic as mbasic
    rng = random.Random(seed)
    if rng.random() < 0.04:
        return format_dialect_entry_points(rng, rec)
    if rng.random() < 0.02:
        return two_hierarchies_in_one_field(rng, rec)
    if rng.random() < 0.01:
        return subclass_instance_case(rng, rec)
    fam = Family("c15", future_annotations=rng.random() < 0.1)
    other = None
    try:
        tg = TypeGen(fam, rng, dc_config_fn=config_fn, mixins=("DataClassDictMixin", "DataClassDictMixin", "DataClassMessagePackMixin", "DataClassORJSONMixin"))
        kind = rng.random()
        vals_override = None
        if kind < 0.5:
            t = tg.dataclass(rng.randint(0, 2))
        elif kind < 0.62:
            # generic dataclass specialised with same-named classes of two modules
            other = Family("c15other")
            other.exec_src("@dataclass\nclass Item" + ("(DataClassDictMixin)" if rng.random() < 0.5 else "") + ":\n    sku: str = 'o'\n    qty: int = 0\n")
            fam.module.other = other.module
            base = "(DataClassDictMixin, Generic[T])" if rng.random() < 0.5 else "(Generic[T])"
            fam.exec_src("T = TypeVar('T')\n@dataclass\nclass Item" + ("(DataClassDictMixin)" if rng.random() < 0.5 else "") + ":\n    name: str = 'i'\n    when: Optional[datetime.date] = None\n"
                         f"@dataclass\nclass Page{base}:\n    items: List[T] = field(default_factory=list)\n    first: Optional[T] = None\n"
                         "@dataclass\nclass Resp1(DataClassDictMixin):\n    page: Page[Item]\n"
                         "@dataclass\nclass Resp2(DataClassDictMixin):\n    page: Page[other.Item]\n")
            which = rng.choice(["Page[other.Item]", "Page[Item]", "Tuple[Page[Item], Page[other.Item]]", "Resp2"])
            t = ("raw", which)
            mod = fam.module
            import datetime
            i1 = mod.Item("a", datetime.date(2020, 1, 2))
            i2 = mod.other.Item("s1", 3)
            p1, p2 = mod.Page([i1], i1), mod.Page([i2, mod.other.Item()], None)
            vals_override = {"Page[other.Item]": [p2], "Page[Item]": [p1], "Tuple[Page[Item], Page[other.Item]]": [(p1, p2)],
                             "Resp2": [mod.Resp2(p2)]}[which]
            # compile the first specialisation earlier through another entry point
            mod.Resp1(p1).to_dict()
        elif kind < 0.69:
            # a TypedDict on its own (optional keys, nullable values): root of a codec vs element / field positions
            t = tg.typed_dict(rng.randint(0, 1))
        elif kind < 0.77:
            # union of dataclasses told apart by their required fields, in any declaration order, every member used
            n = rng.randint(2, 3)
            names = []
            for i in range(n):
                nm = f"U{i}"
                mix = "(DataClassDictMixin)" if rng.random() < 0.6 else ""
                ft = rng.choice(["int", "str", "List[str]", "datetime.date"])
                fam.exec_src(f"@dataclass\nclass {nm}{mix}:\n    name: str\n    only_{nm.lower()}: {ft}\n    opt_{nm.lower()}: Optional[int] = None\n")
                names.append((nm, ft))
            order_ = [nm for nm, _ in names]
            rng.shuffle(order_)
            which = "Union[" + ", ".join(order_) + "]"
            if rng.random() < 0.3:
                which = f"Optional[{which}]"
            t = ("raw", which)
            import datetime
            sample = {"int": 3, "str": "s", "List[str]": ["a", "b"], "datetime.date": datetime.date(2020, 1, 2)}
            vals_override = [getattr(fam.module, nm)("n" + nm, sample[ft]) for nm, ft in names]
            rng.shuffle(vals_override)
        else:
            t = tg.type(rng.randint(0, 2))
            if tg.allow_field_engine and tg.allow_named and rng.random() < 0.03:
                t = tg.nt_engine_dataclass()          # NamedTuple engine lattice (Config option x field option x position)
            if rng.random() < 0.3 and tast.strip(t)[0] not in ("opt", "none", "any", "union"):
                t = ("ann", ("opt", t, "Optional"), (repr("meta"),))
        tsrc = t[1] if t[0] == "raw" else tast.render(t)
        ns = fam.module.__dict__
        T = eval(tsrc, ns) if t[0] == "raw" else common.eval_type(fam, t)
        if t[0] != "raw" and rng.random() < 0.5:
            # history: the (plain) ANCESTORS got compiled methods of their own first, as members of a mixin class; a
            # subclass is still (de)serialized by its own field table through every entry point
            for k, A in enumerate(common.ancestor_classes(fam, t)):
                try:
                    fam.exec_src(f"@dataclass\nclass AncHolder{k}(DataClassDictMixin):\n    a: Optional[{A.__name__}] = None\n    l: List[{A.__name__}] = field(default_factory=list)\n")
                    h = getattr(fam.module, f"AncHolder{k}")
                    h.from_dict(h().to_dict())
                    rec.count("history_ancestor_compiled_as_member_first")
                except Exception:
                    pass
        try:
            enc, dec = BasicEncoder(T), BasicDecoder(T)
        except Exception as e:
            rec.violation(f"codec-build:{type(e).__name__}", {"type": tsrc, "error": str(e)[:300], "family": fam.to_json()}, {"stage": "build"})
            return
        wraps = {
            "list": (eval(f"List[{tsrc}]", ns), lambda v: [v], lambda o: o[0]),
            "dict": (eval(f"Dict[str, {tsrc}]", ns), lambda v: {"k": v}, lambda o: o["k"]),
            "optional": (eval(f"Optional[{tsrc}]", ns), lambda v: v, lambda o: o),
            "tuple": (eval(f"Tuple[{tsrc}, int]", ns), lambda v: (v, 1), lambda o: o[0]),
        }
        wenc = {k: BasicEncoder(w[0]) for k, w in wraps.items()}
        wdec = {k: BasicDecoder(w[0]) for k, w in wraps.items()}
        fam.exec_src(f"@dataclass\nclass OutM(DataClassDictMixin):\n    f: {tsrc}\n    g: List[{tsrc}] = field(default_factory=list)\n"
                     f"@dataclass\nclass OutP:\n    f: {tsrc}\n    m: Dict[str, {tsrc}] = field(default_factory=dict)\n")
        OutM, OutP = fam.module.OutM, fam.module.OutP
        outp_enc, outp_dec = BasicEncoder(OutP), BasicDecoder(OutP)
        is_mixin_dc = isinstance(T, type) and hasattr(T, "to_dict") and hasattr(T, "__mashumaro_to_dict__")
        vg = Gen(fam, rng)
        nvals = 4 if tier == "quick" else 8
        tshape = tsrc if t[0] == "raw" else tast.shape_hash(t)
        extra_objects = []
        for j in range(nvals):
            v = vals_override[j % len(vals_override)] if vals_override else vg.value(t, 3)
            rec.evaluation()
            # ---------------- encode through every entry point
            routes = {"codec": lambda: enc.encode(v), "func": lambda: mbasic.encode(v, T)}
            if is_mixin_dc:
                routes["mixin"] = lambda: v.to_dict()
            for k, (wt, wrap, unwrap) in wraps.items():
                routes[k] = (lambda k=k, wrap=wrap, unwrap=unwrap: unwrap(wenc[k].encode(wrap(v))))
            routes["outer-mixin.f"] = lambda: OutM(v, [v]).to_dict()["f"]
            routes["outer-mixin.g"] = lambda: OutM(v, [v]).to_dict()["g"][0]
            routes["outer-plain.f"] = lambda: outp_enc.encode(OutP(v, {"k": v}))["f"]
            routes["outer-plain.m"] = lambda: outp_enc.encode(OutP(v, {"k": v}))["m"]["k"]
            outs = {}
            for name, fn in routes.items():
                try:
                    outs[name] = ("ok", fn())
                except Exception as e:
                    outs[name] = ("raise", type(e).__name__)
            base = outs["codec"]
            bad = [n for n, o in outs.items() if not same_outcome(o, base)]
            if bad:
                rec.violation(f"encode-disagree:{bad[0]}-vs-codec:{base[0]}->{outs[bad[0]][0]}",
                              {"type": tsrc, "value": common.short(v), "codec": common.short(base, 300),
                               "others": {n: common.short(outs[n], 300) for n in bad[:4]}, "family": fam.to_json()},
                              {"routes": bad, "type_kinds": kinds(fam, t)})
            else:
                rec.count("encode_all_agree")
            if base[0] != "ok":
                continue
            d0 = base[1]
            # ---------------- history: create more codecs / subclasses / formats, then re-check the first encoder
            if j == 1:
                try:
                    extra_objects.append(BasicEncoder(T))
                    extra_objects.append(BasicDecoder(eval(f"List[{tsrc}]", ns)))
                    from mashumaro.codecs.json import JSONEncoder
                    from mashumaro.codecs.msgpack import MessagePackEncoder
                    extra_objects.append(JSONEncoder(T))
                    extra_objects.append(MessagePackEncoder(T))
                    if isinstance(T, type) and t[0] == "dc":
                        fam.exec_src(f"@dataclass\nclass Sub_{t[1]}({t[1]}):\n    zz_extra: int = 0\n")
                except Exception:
                    rec.count("history_objects_failed")
                again = outcome(lambda: enc.encode(v))
                if not same_outcome(again, base):
                    rec.violation("history:encoder-changed-after-creating-codecs", {"type": tsrc, "before": common.short(base), "after": common.short(again)},
                                  {"type_kinds": kinds(fam, t)})
            # ---------------- a format mixin's own methods, the format codec object and the one-shot function
            if isinstance(T, type) and j < 3:
                for meth, modname, ename, fname, parse in (("to_msgpack", "msgpack", "MessagePackEncoder", "msgpack_encode", lambda b: __import__("msgpack").unpackb(b, raw=False)),
                                                           ("to_jsonb", "orjson", "ORJSONEncoder", "json_encode", lambda b: __import__("orjson").loads(b))):
                    if not hasattr(T, meth):
                        continue
                    cmod = __import__(f"mashumaro.codecs.{modname}", fromlist=[ename])
                    outs3 = {"mixin": outcome(lambda: parse(getattr(v, meth)())),
                             "codec": outcome(lambda: parse(getattr(cmod, ename)(T).encode(v))),
                             "func": outcome(lambda: parse(getattr(cmod, fname)(v, T)))}
                    rec.evaluation()
                    badf = [n for n, o in outs3.items() if not same_outcome(o, outs3["codec"])]
                    if badf:
                        rec.violation(f"encode-disagree:{meth}:{badf[0]}-vs-codec:{outs3['codec'][0]}->{outs3[badf[0]][0]}",
                                      {"type": tsrc, "value": common.short(v), "codec": common.short(outs3["codec"], 300),
                                       "others": {n: common.short(outs3[n], 300) for n in badf}, "family": fam.to_json()},
                                      {"routes": badf, "type_kinds": kinds(fam, t), "format": modname})
                    else:
                        rec.count("format_mixin_codec_func_agree")
            # ---------------- format codecs: a user default_dialect that sets nothing is the same entry point
            if isinstance(T, type) and j < 2:
                from mashumaro.dialect import Dialect as _Dialect
                neutral = type("Neutral", (_Dialect,), {})
                for modname, ename in (("json", "JSONEncoder"), ("orjson", "ORJSONEncoder"), ("yaml", "YAMLEncoder"),
                                       ("msgpack", "MessagePackEncoder"), ("toml", "TOMLEncoder")):
                    E = getattr(__import__(f"mashumaro.codecs.{modname}", fromlist=[ename]), ename)
                    a = outcome(lambda: E(T).encode(v))
                    b = outcome(lambda: E(T, default_dialect=neutral).encode(v))
                    rec.evaluation()
                    if same_outcome(a, b):
                        rec.count("format_codec_neutral_dialect_agree")
                    else:
                        rec.violation(f"encode-disagree:{ename}-neutral-default-dialect:{a[0]}->{b[0]}",
                                      {"type": tsrc, "value": common.short(v), "plain": common.short(a, 300), "with_neutral_dialect": common.short(b, 300),
                                       "family": fam.to_json()}, {"routes": [ename], "type_kinds": kinds(fam, t)})
            # ---------------- history: the one-shot functions were first used with the SAME members in another order
            # (typing compares Unions as sets; the library tries members in declaration order)
            if j == 0:
                import typing
                args_ = typing.get_args(T)
                if typing.get_origin(T) is typing.Union and len(args_) >= 2:
                    try:
                        Trev = typing.Union[tuple(reversed(args_))]
                        if Trev is not T:
                            rec.count("history_one_shot_with_reordered_union")
                            for fn in (lambda: mbasic.decode(d0, Trev), lambda: mbasic.encode(v, Trev)):
                                try:
                                    fn()
                                except Exception:
                                    pass
                    except Exception:
                        pass
            # ---------------- decode through every entry point (valid + hostile)
            inputs = [("valid", d0)] + [(m[0], m[1]) for m in mutations(d0, rng, 3 if tier == "quick" else 6)]
            for label, d in inputs:
                rec.evaluation()
                droutes = {"codec": lambda: dec.decode(d), "func": lambda: mbasic.decode(d, T)}
                if is_mixin_dc:
                    droutes["mixin"] = lambda: T.from_dict(d)
                for k, (wt, wrap, unwrap) in wraps.items():
                    droutes[k] = (lambda k=k, unwrap=unwrap: unwrap(wdec[k].decode({"list": [d], "dict": {"k": d}, "optional": d, "tuple": [d, 1]}[k])))
                droutes["outer-mixin.f"] = lambda: OutM.from_dict({"f": d, "g": [d]}).f
                droutes["outer-mixin.g"] = lambda: OutM.from_dict({"f": d, "g": [d]}).g[0]
                droutes["outer-plain.m"] = lambda: outp_dec.decode({"f": d, "m": {"k": d}}).m["k"]
                res = {n: outcome(fn) for n, fn in droutes.items()}
                rbase = res["codec"]
                skip = set()
                if d is None:
                    skip = {"optional"}      # Optional[T] legitimately maps null to None
                bad = [n for n, o in res.items() if n not in skip and not same_outcome(o, rbase, values=True)]
                if bad:
                    rec.violation(f"decode-disagree:{bad[0]}-vs-codec:{rbase[0]}->{res[bad[0]][0]}",
                                  {"type": tsrc, "input": common.short(d, 300), "mutation": label, "codec": common.short(rbase, 300),
                                   "others": {n: common.short(res[n], 300) for n in bad[:4]}, "family": fam.to_json()},
                                  {"routes": bad, "type_kinds": kinds(fam, t), "input_is_none": d is None,
                                   # Optional[Union[A, B]] is Union[A, B, None]: the None member's fallback (finding F02)
                                   "explained_by": "F02" if (bad == ["optional"] and ((t[0] == "raw" and t[1].startswith(("Union[", "Optional[Union["))) or (t[0] != "raw" and tast.strip(t)[0] in ("union", "tv")))
                                                             and res["optional"] == ("ok", None) and rbase[0] == "raise") else None})
                else:
                    rec.count("decode_all_agree")
                rec.nontrivial((tshape, repr(fingerprint(d))[:200]))
            if j == 0:
                rec.sample({"type": tsrc, "value": common.short(v, 160), "entry_points": sorted(routes)})
    finally:
        fam.dispose()
        if other:
            other.dispose()


def kinds(fam, t):
    if t[0] == "raw":
        return ["generic-two-modules"]
    return sorted({n[0] for n in common.deep_nodes(fam, t)})


def outcome(fn):
    try:
        return ("ok", fn())
    except Exception as e:
        return ("raise", type(e).__name__)


def same_outcome(a, b, values=True):
    if a[0] != b[0]:
        return False
    if a[0] == "raise":
        return True
    return deep_eq(a[1], b[1], key_order=True)
