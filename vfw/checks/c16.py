"""C16 - schema-supplied strings are data, never code."""
from __future__ import annotations

import random
import sys

from ..family import Family
from . import common

LEVEL = "exploration"
RULE = ("case = one adversarial string s (quotes, backslash sequences, newline/tab, braces, percent, '#', unicode, Python "
        "fragments that would call a sentinel or close the string literal, triple quotes, builtin names, random mixes) "
        "placed at ONE of the positions: metadata alias, Annotated Alias, Config.aliases, TypedDict key (functional "
        "syntax), class-level and Annotated discriminator field, key set of forbid_extra_keys, Literal str / bytes value, "
        "enum value, with the option combinations that select different generated code paths (allow_deserialization_not_"
        "by_alias, serialize_by_alias, omit_none flag, by_alias flag, defaults). Oracle: the class builds; from_dict reads "
        "exactly key s (a decoy under the unescaped reading is ignored); to_dict writes exactly key s; Literal/enum "
        "return exactly s; a sentinel function embedded in s is never called and no os.system / subprocess / sentinel "
        "file audit event occurs. distinct_nontrivial = distinct (position, option vector, string) triples.")
RULE += " Additions: lone optional Any TypedDict key; keys of an earlier forbid_extra_keys class; null values under the alias key."
ASSUMPTIONS = ["the alphabet is finite (45 hand-written strings + random compositions)",
               "the audit hook sees only events Python audits (exec/compile/os.system/subprocess.Popen/open)"]
BUDGET_S = {"quick": 120, "thorough": 900}
MIN_EVENTS = {"quick": {"evaluations": 6000, "exact_key_confirmed": 4000}, "thorough": {"evaluations": 200000, "exact_key_confirmed": 120000}}

SENT = {"calls": 0, "audit": []}

STRINGS = [
    "a'b", 'a"b', "a\\b", "a\\nb", "a\nb", "a\tb", "tab\\t", "\\", "\\\\", "'", '"', "'''", '"""', "a\\'b", "\\x41", "\\u0041", "\\N{BULLET}",
    "{}", "{0}", "{x}", "{{x}}", "%s", "%(a)s", "%", "#", "a#b", " # comment", "a b", " lead", "trail ", "", "é", "日本語", "\u2028", "a\rb",
    "', MISSING) or SENTINEL() or d.get('", "'] = SENTINEL(); kwargs['", "' + str(SENTINEL()) + '", "'); SENTINEL(); ('",
    "\\', MISSING) or SENTINEL() or d.get(\\'", "__import__('os').system('echo VFW_SENTINEL')", "}); SENTINEL(); ({", "None", "MISSING", "d", "cls",
    "value", "kwargs", "self", "\x00", "a\x7fb", "x" * 300,
]


def n_cases(tier):
    return 8000 if tier == "quick" else 500000


def _audit(event, args):
    if event in ("os.system", "subprocess.Popen"):
        SENT["audit"].append((event, repr(args)[:200]))
    elif event == "open" and args and isinstance(args[0], str) and "VFW_SENTINEL" in args[0]:
        SENT["audit"].append((event, repr(args)[:200]))


def worker_setup(tier, rec):
    st = common.install_monitors(rec)
    sys.addaudithook(_audit)
    return st


def worker_finish(tier, rec, st):
    common.finish_monitors(rec, st)
    rec.count("sentinel_calls_total", SENT["calls"])


def sentinel():
    SENT["calls"] += 1
    return "SENTINEL-RESULT"


def gen_string(rng):
    x = rng.random()
    if x < 0.75:
        return rng.choice(STRINGS)
    parts = [rng.choice(["'", '"', "\\", "\n", "{", "}", "%", "#", "a", "é", " ", "\\n", "x", "SENTINEL()", "(", ")", ","]) for _ in range(rng.randint(1, 8))]
    return "".join(parts)


POSITIONS = ["meta_alias", "ann_alias", "cfg_alias", "typeddict_key", "discr_class", "discr_annotated", "forbid_keys",
             "literal_str", "literal_bytes", "enum_value", "nt_as_dict_alias", "union_field_alias",
             "generic_literal_arg", "literal_mixin_enum_member"]


def run_case(seed, tier, rec, st):
    rng = random.Random(seed)
    s = gen_string(rng)
    pos = rng.choice(POSITIONS)
    fam = Family("c16")
    calls0, audit0 = SENT["calls"], len(SENT["audit"])
    rec.evaluation()
    facts = {"position": pos, "has_quote": "'" in s, "has_dquote": '"' in s, "has_backslash": "\\" in s,
             "has_newline": any(c in s for c in "\n\r\u2028"), "has_brace": "{" in s or "}" in s}
    det = {"position": pos, "string": s}
    try:
        fam.module.S = s
        fam.module.SENTINEL = sentinel
        fam.module.SB = s.encode("utf-8", "surrogatepass")
        try:
            ok = getattr(sys.modules[__name__], "pos_" + pos)(fam, rng, s, rec, det, facts)
        except Exception as e:
            rec.violation(f"{pos}:harness-or-library-exception:{type(e).__name__}", dict(det, error=f"{type(e).__name__}: {e}"[:300], source="".join(fam.sources[1:])[-1500:]),
                          dict(facts, stage="run", exc=type(e).__name__))
            ok = False
        if SENT["calls"] != calls0:
            rec.violation(f"{pos}:sentinel-executed", dict(det, source="".join(fam.sources[1:])[-1500:]), dict(facts, executed=True))
        if len(SENT["audit"]) != audit0:
            rec.violation(f"{pos}:side-effect-audit-event", dict(det, events=SENT["audit"][audit0:]), dict(facts, executed=True))
        if ok:
            rec.count("exact_key_confirmed")
            rec.nontrivial((pos, s, facts.get("opts")))
            if rng.random() < 0.01:
                rec.sample({"position": pos, "string": s, "options": facts.get("opts")})
    finally:
        fam.dispose()


def build(fam, src, rec, det, facts):
    try:
        fam.exec_src(src)
        return True
    except Exception as e:
        rec.violation(f"{facts['position']}:class-build:{type(e).__name__}", dict(det, source=src, error=f"{type(e).__name__}: {e}"[:300]),
                      dict(facts, stage="build", exc=type(e).__name__))
        return False


def alias_opts(rng):
    return {"allow": rng.random() < 0.4, "by_alias": rng.random() < 0.5, "flag_by_alias": rng.random() < 0.3,
            "flag_omit_none": rng.random() < 0.3, "default": rng.random() < 0.5, "conv": rng.random() < 0.5,
            "nullable": rng.random() < 0.4, "omit_default": rng.random() < 0.2, "lazy": rng.random() < 0.15}


def alias_config(o, extra=()):
    flags = [f for f, on in (("TO_DICT_ADD_BY_ALIAS_FLAG", o["flag_by_alias"]), ("TO_DICT_ADD_OMIT_NONE_FLAG", o["flag_omit_none"])) if on]
    lines = ["    class Config(BaseConfig):", f"        allow_deserialization_not_by_alias = {o['allow']}",
             f"        serialize_by_alias = {o['by_alias']}", f"        code_generation_options = [{', '.join(flags)}]",
             f"        omit_default = {o['omit_default']}", f"        lazy_compilation = {o['lazy']}"]
    lines += ["        " + e for e in extra]
    return "\n".join(lines) + "\n"


def check_alias_roundtrip(fam, cls, s, o, rec, det, facts, field="x"):
    """from_dict reads exactly key s; to_dict(by alias) writes exactly key s."""
    import datetime
    wire, val = ("2020-01-02", datetime.date(2020, 1, 2)) if o["conv"] else (7, 7)
    d = {s: wire, "y": 1}
    # decoys: what a mis-escaped reading of s could look up instead
    for decoy in (s.encode("utf-8", "backslashreplace").decode("unicode_escape", "ignore") if "\\" in s else None, s.replace("\\", ""), s.strip(), "x_decoy"):
        if decoy is not None and decoy != s and decoy not in ("y", field):
            d.setdefault(decoy, "DECOY")
    r = cls.from_dict(dict(d))
    got = getattr(r, field)
    if got != val:
        rec.violation(f"{facts['position']}:from_dict-did-not-read-the-exact-key", dict(det, input=common.short(d), observed=common.short(got), source="".join(fam.sources[1:])[-1500:]), facts)
        return False
    out = r.to_dict(**({"by_alias": True} if o["flag_by_alias"] else {}))
    want_alias = o["by_alias"] or o["flag_by_alias"]
    key = s if want_alias else field
    y_dropped = o["omit_default"] and o["default"]      # y == 1 equals its default
    if key not in out or out[key] != wire or len(out) != (1 if y_dropped else 2):
        rec.violation(f"{facts['position']}:to_dict-did-not-write-the-exact-key", dict(det, observed=common.short(out), expected_key=key, source="".join(fam.sources[1:])[-1500:]), facts)
        return False
    if o["nullable"]:
        # a None VALUE is written under the same key as any other value (or dropped with the default it equals)
        out3 = cls(**{field: None, "y": 2}).to_dict(**({"by_alias": True} if o["flag_by_alias"] else {}))
        dropped = o["omit_default"] and o["default"]        # the default of a nullable member is None here
        if (dropped and (s in out3 or field in out3) and key in out3) or (not dropped and (key not in out3 or out3[key] is not None or len(out3) != 2)):
            rec.violation(f"{facts['position']}:to_dict-did-not-write-the-exact-key-for-a-null-value", dict(det, observed=common.short(out3), expected_key=key,
                          source="".join(fam.sources[1:])[-1500:]), facts)
            return False
    if o["nullable"] and not o["conv"]:
        r2 = cls.from_dict({s: None, "y": 1})
        if getattr(r2, field) is not None:
            rec.violation(f"{facts['position']}:explicit-null-under-the-key-not-read", dict(det, observed=common.short(r2)), facts)
            return False
    return True


def alias_class(fam, rng, s, rec, det, facts, how):
    o = alias_opts(rng)
    facts["opts"] = repr(sorted(o.items()))
    base = "datetime.date" if o["conv"] else "int"
    ann = f"Optional[{base}]" if o["nullable"] else base
    dflt = "None" if o["nullable"] else ("datetime.date(2000, 1, 1)" if o["conv"] else "5")
    extra = ()
    S_ = "S"
    if rng.random() < 0.2:
        # the key is given as a member of a str-based enum whose value is the string (keys kept in one enum is a common idiom)
        try:
            fam.module.KE = __import__("enum").Enum("KE", {"M": s}, type=str)
            S_ = "KE.M"
            facts["alias_is_str_enum_member"] = True
        except Exception:
            S_ = "S"
    if how == "meta":
        fld = f"    x: {ann} = field(" + (f"default={dflt}, " if o["default"] else "") + f"metadata=field_options(alias={S_}))"
    elif how == "ann":
        fld = f"    x: Annotated[{ann}, Alias({S_})]" + (f" = {dflt}" if o["default"] else "")
    else:
        fld = f"    x: {ann}" + (f" = {dflt}" if o["default"] else "")
        extra = (f"aliases = {{'x': {S_}}}",)
    ysrc = "    y: int = 1" if o["default"] else "    y: int"
    if how in ("meta", "ann") and rng.random() < 0.2:
        # the string is the alias of the NEAREST declaration: a grand-parent declares the member under another key, the parent
        # re-declares it with the string, the class itself only inherits
        facts["three_levels"] = True
        stale = (f"    x: {ann} = field(" + (f"default={dflt}, " if o["default"] else "") + "metadata=field_options(alias='stale_key'))" if how == "meta"
                 else f"    x: Annotated[{ann}, Alias('stale_key')]" + (f" = {dflt}" if o["default"] else ""))
        src = ("@dataclass\nclass B0(DataClassDictMixin):\n" + stale + "\n" + ysrc + "\n" + alias_config(o, extra) +
               "@dataclass\nclass B1(B0):\n" + fld + "\n@dataclass\nclass M(B1):\n    pass\n")
        if not build(fam, src, rec, det, facts):
            return False
        return check_alias_roundtrip(fam, fam.module.M, s, o, rec, det, facts)
    src = "@dataclass\nclass M(DataClassDictMixin):\n" + fld + "\n" + ysrc + "\n" + alias_config(o, extra)
    if not build(fam, src, rec, det, facts):
        return False
    return check_alias_roundtrip(fam, fam.module.M, s, o, rec, det, facts)


def pos_meta_alias(fam, rng, s, rec, det, facts):
    return alias_class(fam, rng, s, rec, det, facts, "meta")


def pos_ann_alias(fam, rng, s, rec, det, facts):
    return alias_class(fam, rng, s, rec, det, facts, "ann")


def pos_cfg_alias(fam, rng, s, rec, det, facts):
    return alias_class(fam, rng, s, rec, det, facts, "cfg")


def pos_union_field_alias(fam, rng, s, rec, det, facts):
    """aliased field whose type needs a generated helper (union / literal): the field name and alias reach other splices."""
    o = alias_opts(rng)
    o["conv"] = False
    o["nullable"] = False
    facts["opts"] = repr(sorted(o.items()))
    src = ("@dataclass\nclass M(DataClassDictMixin):\n    x: Union[int, List[int], datetime.date] = field(" +
           ("default=5, " if o["default"] else "") + "metadata=field_options(alias=S))\n" + ("    y: int = 1\n" if o["default"] else "    y: int\n") + alias_config(o))
    if not build(fam, src, rec, det, facts):
        return False
    return check_alias_roundtrip(fam, fam.module.M, s, o, rec, det, facts)


def pos_typeddict_key(fam, rng, s, rec, det, facts):
    from mashumaro.codecs.basic import BasicDecoder, BasicEncoder
    kind = rng.choice(["required", "optional-date", "optional-any-lone", "optional-any-pair"])
    req = kind == "required"
    if s in ("other", "zz"):
        return True
    ksrc = {"required": "int", "optional-date": "NotRequired[datetime.date]", "optional-any-lone": "NotRequired[Any]", "optional-any-pair": "NotRequired[Any]"}[kind]
    src = ("TD = TypedDict('TD', {S: " + ksrc + ", 'other': int" + (", 'zz': NotRequired[Any]" if kind == "optional-any-pair" else "") + "})\n"
           "@dataclass\nclass M(DataClassDictMixin):\n    t: TD\n")
    facts["opts"] = f"key={kind}"
    if not build(fam, src, rec, det, facts):
        return False
    import datetime
    wire, val = (3, 3) if req else ("2020-01-02", datetime.date(2020, 1, 2)) if kind == "optional-date" else ("opaque", "opaque")
    for route, decode, encode in (("field", lambda d: fam.module.M.from_dict({"t": d}).t, lambda v: fam.module.M(v).to_dict()["t"]),
                                  ("codec", BasicDecoder(fam.module.TD).decode, BasicEncoder(fam.module.TD).encode)):
        r = decode({s: wire, "other": 1, "x_decoy": 9})
        if r != {s: val, "other": 1}:
            rec.violation("typeddict_key:decode-did-not-use-the-exact-key", dict(det, route=route, observed=common.short(r)), facts)
            return False
        out = encode({s: val, "other": 1})
        if out != {s: wire, "other": 1}:
            rec.violation("typeddict_key:encode-did-not-use-the-exact-key", dict(det, route=route, observed=common.short(out)), facts)
            return False
    return True


def pos_discr_class(fam, rng, s, rec, det, facts):
    from mashumaro.exceptions import MissingDiscriminatorError, SuitableVariantNotFoundError
    if s in ("a", "b", "c"):
        return True      # collides with a field name of the harness classes
    src = ("@dataclass\nclass R(DataClassDictMixin):\n    a: int = 0\n    class Config(BaseConfig):\n"
           "        discriminator = Discriminator(field=S, include_subtypes=True)\n"
           "@dataclass\nclass V1(R):\n    b: int = 1\n"
           "setattr(V1, S, 'one')\n"
           "@dataclass\nclass V2(R):\n    c: int = 2\n"
           "setattr(V2, S, 'two')\n")
    if not build(fam, src, rec, det, facts):
        return False
    m = fam.module
    r = m.R.from_dict({s: "two", "a": 5})
    if type(r) is not m.V2 or r.a != 5:
        rec.violation("discr_class:wrong-variant", dict(det, observed=common.short(r)), facts)
        return False
    try:
        m.R.from_dict({"a": 1})
        rec.violation("discr_class:missing-tag-not-reported", det, facts)
        return False
    except MissingDiscriminatorError as e:
        if e.field_name != s:
            rec.violation("discr_class:error-names-another-field", dict(det, observed=e.field_name), facts)
            return False
    try:
        m.R.from_dict({s: "nope"})
        return False
    except SuitableVariantNotFoundError as e:
        if e.discriminator_name != s:
            rec.violation("discr_class:error-names-another-field", dict(det, observed=e.discriminator_name), facts)
            return False
    return True


def pos_discr_annotated(fam, rng, s, rec, det, facts):
    from mashumaro.codecs.basic import BasicDecoder
    if s in ("a", "b", "c"):
        return True
    src = ("@dataclass\nclass R:\n    a: int = 0\n"
           "@dataclass\nclass V1(R):\n    b: int = 1\n"
           "setattr(V1, S, 'one')\n"
           "@dataclass\nclass V2(R):\n    c: int = 2\n"
           "setattr(V2, S, 'two')\n"
           "DISC = Annotated[R, Discriminator(field=S, include_subtypes=True)]\n"
           "@dataclass\nclass H(DataClassDictMixin):\n    p: DISC\n")
    if not build(fam, src, rec, det, facts):
        return False
    m = fam.module
    for route, fn in (("holder", lambda d: m.H.from_dict({"p": d}).p), ("codec", BasicDecoder(m.DISC).decode)):
        r = fn({s: "one", "a": 3})
        if type(r) is not m.V1 or r.a != 3:
            rec.violation("discr_annotated:wrong-variant", dict(det, route=route, observed=common.short(r)), facts)
            return False
    return True


def pos_forbid_keys(fam, rng, s, rec, det, facts):
    from mashumaro.exceptions import ExtraKeysError
    allow = rng.random() < 0.5
    facts["opts"] = f"allow={allow}"
    earlier = rng.random() < 0.5
    if earlier:
        # history: ANOTHER class with forbid_extra_keys was built before, one that legitimately accepts more keys (its member
        # names next to the aliases, the tag key of its class-level discriminator): those are its keys, nobody else's
        src0 = ("@dataclass\nclass L(DataClassDictMixin):\n    lx: int = field(default=0, metadata=field_options(alias='LA'))\n"
                "    class Config(BaseConfig):\n        forbid_extra_keys = True\n        allow_deserialization_not_by_alias = True\n"
                "        discriminator = Discriminator(field='ltag', include_subtypes=True)\n"
                "@dataclass\nclass L1(L):\n    ltag = 'one'\n")
        if not build(fam, src0, rec, det, facts):
            return False
        fam.module.L.from_dict({"ltag": "one", "lx": 1})
    facts["opts"] = f"allow={allow} earlier_class={earlier}"
    src = ("@dataclass\nclass M(DataClassDictMixin):\n    x: int = field(default=0, metadata=field_options(alias=S))\n    y: int = 1\n"
           f"    class Config(BaseConfig):\n        forbid_extra_keys = True\n        allow_deserialization_not_by_alias = {allow}\n")
    if not build(fam, src, rec, det, facts):
        return False
    m = fam.module
    if s in ("y", "lx", "ltag"):
        return True
    if earlier:
        for foreign in ("lx", "ltag"):
            try:
                m.M.from_dict({s: 4, foreign: 1})
                rec.violation("forbid_keys:key-of-an-earlier-class-accepted", dict(det, extra=foreign, source="".join(fam.sources[1:])[-1200:]), facts)
                return False
            except ExtraKeysError as e:
                if set(e.extra_keys) != {foreign}:
                    rec.violation("forbid_keys:wrong-extra-keys", dict(det, observed=sorted(map(repr, e.extra_keys))), facts)
                    return False
    r = m.M.from_dict({s: 4, "y": 2})
    if r.x != 4:
        rec.violation("forbid_keys:alias-key-rejected-or-unread", dict(det, observed=common.short(r)), facts)
        return False
    stranger = s + "_x"
    try:
        m.M.from_dict({s: 4, stranger: 1})
        rec.violation("forbid_keys:extra-key-accepted", dict(det, extra=stranger), facts)
        return False
    except ExtraKeysError as e:
        if set(e.extra_keys) != {stranger}:
            rec.violation("forbid_keys:wrong-extra-keys", dict(det, observed=sorted(e.extra_keys)), facts)
            return False
    return True


SWAP = str.maketrans({"'": '"', '"': "'", "+": "-", "-": "+", "{": "}", "}": "{", "\\": "/", "/": "\\", "#": "%", "%": "#",
                      " ": ".", ".": " ", "\n": "\t", "\t": "\n", "(": ")", ")": "(", ",": ";", ";": ","})


def pos_literal_str(fam, rng, s, rec, det, facts):
    from mashumaro.codecs.basic import BasicDecoder, BasicEncoder
    # a second Literal type in the same class whose values differ from the first only in punctuation
    s2 = s.translate(SWAP)
    fam.module.S2 = s2
    src = ("LIT = Literal[S, 'zz', 3]\nLIT2 = Literal[S2, '+', 4]\nLIT3 = Literal[S, '-', 4]\n"
           "@dataclass\nclass M(DataClassDictMixin):\n    v: LIT\n    w: LIT = 'zz'\n    p: LIT2 = '+'\n    q: LIT3 = '-'\n")
    if not build(fam, src, rec, det, facts):
        return False
    m = fam.module
    if s == "zz":
        return True
    r0 = m.M.from_dict({"v": s, "p": s2, "q": "-"})
    if r0.p != s2 or r0.q != "-":
        rec.violation("literal_str:sibling-literal-confused", dict(det, observed=common.short(r0)), facts)
        return False
    for bad in ({"v": s, "p": "-"}, {"v": s, "q": "+"}):
        try:
            m.M.from_dict(bad)
            rec.violation("literal_str:sibling-literal-value-accepted", dict(det, input=common.short(bad)), facts)
            return False
        except Exception:
            pass
    r = m.M.from_dict({"v": s})
    out = m.M(s).to_dict()
    r2 = BasicDecoder(m.LIT).decode(s)
    o2 = BasicEncoder(m.LIT).encode(s)
    if r.v != s or out["v"] != s or r2 != s or o2 != s:
        rec.violation("literal_str:value-not-preserved", dict(det, observed=[common.short(x) for x in (r.v, out, r2, o2)]), facts)
        return False
    near = s + "'"
    try:
        m.M.from_dict({"v": near})
        rec.violation("literal_str:unlisted-value-accepted", dict(det, input=near), facts)
        return False
    except Exception:
        pass
    return True


def pos_generic_literal_arg(fam, rng, s, rec, det, facts):
    """the string as a Literal ARGUMENT of a generic dataclass specialisation (its rendered type name carries it):
    every message path (non-mapping argument, missing / invalid field) must treat it as data."""
    from mashumaro.codecs.basic import BasicDecoder
    from mashumaro.exceptions import MissingField, InvalidFieldValue
    mixin = "DataClassDictMixin, " if rng.random() < 0.6 else ""
    kindb = rng.random() < 0.3
    fam.module.LV = fam.module.SB if kindb else s
    src = ("T = TypeVar('T')\n"
           f"@dataclass\nclass Tagged({mixin}Generic[T]):\n    tag: T\n    n: int = 0\n"
           "SPEC = Tagged[Literal[LV]]\n"
           "@dataclass\nclass Holder(DataClassDictMixin):\n    x: SPEC\n    xs: List[SPEC] = field(default_factory=list)\n")
    if not build(fam, src, rec, det, facts):
        return False
    m = fam.module
    import base64
    wire = base64.encodebytes(m.SB).decode() if kindb else s
    dec = BasicDecoder(m.SPEC)
    ok = True
    r = m.Holder.from_dict({"x": {"tag": wire, "n": 1}, "xs": [{"tag": wire}]})
    r2 = dec.decode({"tag": wire})
    if r.x.tag != m.LV or r.xs[0].tag != m.LV or r2.tag != m.LV:
        rec.violation("generic_literal_arg:value-not-preserved", dict(det, observed=common.short(r)), facts)
        ok = False
    for bad, exp in ((5, (ValueError, InvalidFieldValue)), ({"n": 1}, (MissingField, InvalidFieldValue)), ({"tag": wire, "n": "zz"}, (InvalidFieldValue,)),
                     ({"tag": 12345}, (InvalidFieldValue,))):
        for fn in (lambda b: m.Holder.from_dict({"x": b}), dec.decode, lambda b: m.Holder.from_dict({"x": {"tag": wire}, "xs": [b]})):
            try:
                fn(bad)
                rec.violation("generic_literal_arg:invalid-input-accepted", dict(det, input=common.short(bad)), facts)
                ok = False
            except exp as e:
                str(e)          # rendering the message must work too
            except Exception as e:
                rec.violation(f"generic_literal_arg:error-path:{type(e).__name__}", dict(det, input=common.short(bad), error=f"{type(e).__name__}: {e}"[:300]),
                              dict(facts, exc=type(e).__name__))
                ok = False
    return ok


def pos_literal_mixin_enum_member(fam, rng, s, rec, det, facts):
    """Literal listing a member of an enum that is also a str / int (StrEnum, str-mixin Enum, IntEnum, IntFlag) whose
    VALUE is the string: the member is an enum member first, not a plain constant to be spliced."""
    from mashumaro.codecs.basic import BasicDecoder, BasicEncoder
    base = rng.choice(["enum.StrEnum", "str, enum.Enum", "enum.IntEnum", "enum.IntFlag"])
    is_str = "Str" in base or "str" in base
    if is_str and s == "":
        pass
    fam.module.EV = s if is_str else (abs(hash(s)) % 7 + 1)
    other = "'other-' + S" if is_str else "64"
    src = (f"class ME({base}):\n    a = EV\n    b = {other}\n"
           "LITE = Literal[ME.a, 'plain', 99]\n"
           "@dataclass\nclass M(DataClassDictMixin):\n    v: LITE\n    w: LITE = 'plain'\n    u: Literal[ME.b] = ME.b\n")
    if not build(fam, src, rec, det, facts):
        return False
    m = fam.module
    wire = m.EV
    r = m.M.from_dict({"v": wire})
    out = m.M(m.ME.a).to_dict()
    r2 = BasicDecoder(m.LITE).decode(wire)
    o2 = BasicEncoder(m.LITE).encode(m.ME.a)
    good = (r.v is m.ME.a and r2 is m.ME.a and out["v"] == wire and type(out["v"]) is type(wire) and o2 == wire and type(o2) is type(wire)
            and out["u"] == m.ME.b.value and type(out["u"]) is type(m.ME.b.value))
    if not good:
        rec.violation("literal_mixin_enum_member:member-or-value-not-preserved", dict(det, base=base, observed=[common.short(x) for x in (r, out, r2, o2)]), facts)
        return False
    return True


def pos_literal_bytes(fam, rng, s, rec, det, facts):
    import base64
    from mashumaro.codecs.basic import BasicDecoder, BasicEncoder
    # the bytes member is written and recognised in whatever form is in force for bytes: base64 text by default, the user's
    # own form (hex here) when a strategy for bytes is registered at any level, the bytes themselves when passed through
    form = rng.choice(["default", "default", "cfg_strategy", "cfg_dialect", "call_dialect", "codec_dialect", "pass_through"])
    facts["bytes_form"] = form
    pre = ("class HexS(SerializationStrategy):\n    def serialize(self, v):\n        return v.hex()\n    def deserialize(self, v):\n        return bytes.fromhex(v)\n"
           "class HexD(Dialect):\n    serialization_strategy = {bytes: " + rng.choice(["HexS()", "{'serialize': bytes.hex, 'deserialize': bytes.fromhex}"]) + "}\n")
    cfg = {"cfg_strategy": "    class Config(BaseConfig):\n        serialization_strategy = {bytes: HexS()}\n",
           "cfg_dialect": "    class Config(BaseConfig):\n        dialect = HexD\n",
           "call_dialect": "    class Config(BaseConfig):\n        code_generation_options = [ADD_DIALECT_SUPPORT]\n",
           "pass_through": "    class Config(BaseConfig):\n        serialization_strategy = {bytes: pass_through}\n"}.get(form, "")
    src = pre + "LITB = Literal[SB, b'zz']\n@dataclass\nclass M(DataClassDictMixin):\n    v: LITB\n    plain: bytes = b''\n    o: Optional[Literal[SB]] = None\n" + cfg
    if not build(fam, src, rec, det, facts):
        return False
    m = fam.module
    sb = m.SB
    enc = {"default": lambda b: base64.encodebytes(b).decode(), "pass_through": lambda b: b}.get(form, lambda b: b.hex())
    wire = enc(sb)
    kw = {"dialect": m.HexD} if form == "call_dialect" else {}
    if form == "codec_dialect":
        r = BasicDecoder(m.M, default_dialect=m.HexD).decode({"v": wire, "plain": enc(b"p"), "o": wire})
        out = BasicEncoder(m.M, default_dialect=m.HexD).encode(m.M(sb, b"p", sb))
    else:
        r = m.M.from_dict({"v": wire, "plain": enc(b"p"), "o": wire}, **kw)
        out = m.M(sb, b"p", sb).to_dict(**kw)
    if r != m.M(sb, b"p", sb) or out != {"v": wire, "plain": enc(b"p"), "o": wire}:
        rec.violation("literal_bytes:value-not-preserved", dict(det, observed=[common.short(r.v), common.short(out)]), facts)
        return False
    return True


def pos_enum_value(fam, rng, s, rec, det, facts):
    src = "class E(enum.Enum):\n    A = S\n    B = 'zz'\n@dataclass\nclass M(DataClassDictMixin):\n    e: E\n    l: Literal[E.A] = E.A\n    d: Dict[E, int] = field(default_factory=dict)\n"
    if not build(fam, src, rec, det, facts):
        return False
    m = fam.module
    if s == "zz":
        return True
    r = m.M.from_dict({"e": s, "l": s, "d": {s: 1}})
    out = r.to_dict()
    if r.e is not m.E.A or r.l is not m.E.A or out != {"e": s, "l": s, "d": {s: 1}}:
        rec.violation("enum_value:value-not-preserved", dict(det, observed=[common.short(r), common.short(out)]), facts)
        return False
    return True


def pos_nt_as_dict_alias(fam, rng, s, rec, det, facts):
    """named tuple as dict (identifier keys by Python's rules) next to an aliased field in the same class."""
    o = alias_opts(rng)
    o["conv"] = False
    o["nullable"] = False
    facts["opts"] = repr(sorted(o.items()))
    src = ("class NT(NamedTuple):\n    ключ: int\n    b: str = 'q'\n"
           "@dataclass\nclass M(DataClassDictMixin):\n    x: int = field(" + ("default=5, " if o["default"] else "") + "metadata=field_options(alias=S))\n"
           + ("    y: int = 1\n" if o["default"] else "    y: int\n") +
           "    n: NT = NT(1)\n" + alias_config(o, ("namedtuple_as_dict = True",)))
    if not build(fam, src, rec, det, facts):
        return False
    m = fam.module.M
    r = m.from_dict({s: 7, "y": 1, "n": {"ключ": 2, "b": "w"}})
    if r.x != 7 or r.n != fam.module.NT(2, "w"):
        rec.violation("nt_as_dict_alias:wrong-read", dict(det, observed=common.short(r)), facts)
        return False
    out = r.to_dict(**({"by_alias": True} if o["flag_by_alias"] else {}))
    key = s if (o["by_alias"] or o["flag_by_alias"]) else "x"
    if out.get(key) != 7 or out.get("n") != {"ключ": 2, "b": "w"}:
        rec.violation("nt_as_dict_alias:wrong-write", dict(det, observed=common.short(out)), facts)
        return False
    return True
