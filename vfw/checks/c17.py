"""C17 - generated code is closed and binds every type by identity."""
from __future__ import annotations

import random
import sys
import types

from .. import tast
from ..family import Family
from ..gen import TypeGen
from ..hostile import junk_pool
from ..monitors import GEN, live_functions, unresolved_globals, global_refs
from ..values import Gen
from . import common

LEVEL = "exploration"
RULE = ("three monitors over the REAL generated functions (collected through the 'exec' audit hook). (a) dynamic: for "
        "every generated schema all error paths are provoked (each key missing, each field fed junk, stranger keys, "
        "non-mappings, unknown tags) while a sys.monitoring RAISE callback records NameError / UnboundLocalError raised "
        "inside generated code even when a bare except swallows them. (b) static over live bytecode: for every generated "
        "function still alive, every LOAD_GLOBAL / LOAD_NAME (and attribute chain on modules) must resolve in its globals "
        "or builtins - this covers paths no input executed. (c) identity: families contain distinct classes with equal "
        "names (locals of one factory, classes of two modules, functional Enum / NamedTuple / TypedDict / make_dataclass "
        "homonyms, classes named like the generator's own globals); decoded field values must be instances of exactly the "
        "annotated class object and encoding must use the right class. distinct_nontrivial = distinct (schema shape, "
        "monitor) pairs plus distinct generated functions walked.")
RULE += " Additions: user modules named like names of the code generator / of generated locals (F50, F51 pinned by name); defaults whose class comes from a module no annotation mentions; one generic specialisation met while another is being compiled."
ASSUMPTIONS = ["the closure walk checks name resolution of unexecuted paths, not their semantics",
               "generated functions are those exec'ed from frames inside the mashumaro package"]
BUDGET_S = {"quick": 150, "thorough": 1500}
CASES_PER_PROCESS = {"quick": 500, "thorough": 1200}
MIN_EVENTS = {"quick": {"evaluations": 4000, "functions_walked": 5000, "error_paths_provoked": 20000, "identity_checks": 1500, "passthrough_union_cases": 60,
                        "module_name_ok": 100, "nested_specialisations_ok": 60, "foreign_default_ok": 60,
                        "late_specialisations_ok": 100, "container_subclasses_ok": 100,
                        "cross_module_discriminators_ok": 100},
              "thorough": {"evaluations": 10000, "functions_walked": 15000, "error_paths_provoked": 60000, "identity_checks": 4000}}


def n_cases(tier):
    return 5000 if tier == "quick" else 24000


def worker_setup(tier, rec):
    st = common.install_monitors(rec)
    st["walked"] = set()
    from . import c14
    c14.install_yield_injector()        # the LINE-callback yield injector of C14 (tool id 3), off until a case turns it on
    return st


def worker_finish(tier, rec, st):
    common.finish_monitors(rec, st)


def run_case(seed, tier, rec, st):
    rng = random.Random(seed)
    rec.evaluation()
    x = rng.random()
    if x < 0.03:
        threaded_first_use_case(rng, tier, rec, st, seed)
    elif x < 0.05:
        module_name_case(rng, tier, rec, st)
    elif x < 0.07:
        foreign_default_case(rng, tier, rec, st)
    elif x < 0.09:
        nested_specialisations_case(rng, tier, rec, st)
    elif x < 0.11:
        late_specialisation_case(rng, tier, rec, st)
    elif x < 0.13:
        container_subclass_case(rng, tier, rec, st)
    elif x < 0.15:
        cross_module_discriminator_case(rng, tier, rec, st)
    elif x < 0.20:
        passthrough_union_case(rng, tier, rec, st)
    elif x < 0.58:
        schema_case(rng, tier, rec, st)
    else:
        identity_case(rng, tier, rec, st)


# ------------------------------------------------------------------ (a)+(b)
def config_fn(rng):
    cfg = common.safe_config(rng)
    if rng.random() < 0.3:
        cfg["forbid_extra_keys"] = "True"
    if rng.random() < 0.3:
        cfg["serialize_by_alias"] = "True"
        cfg["_aliases"] = True
    if rng.random() < 0.2:
        cfg["omit_default"] = "True"
    if rng.random() < 0.2:
        cfg["omit_none"] = "True"
    return cfg


def walk_new_functions(rec, st, context):
    """closure walk over generated functions not walked yet."""
    gen = st["gen"]
    new = [c for i, c in gen.functions.items() if i not in st["walked"]]
    for c in new:
        st["walked"].add(id(c))
    for fn in live_functions(new):
        rec.count("functions_walked")
        bad = unresolved_globals(fn)
        if bad:
            import re
            names = sorted({re.sub(r"c17\w*_\d+", "<family-module>", b) for b in bad})
            rec.violation("closure:unresolved-global:" + (context.get("kind") or "schema") + ":" + ",".join(names)[:80],
                          dict(context, function=re.sub(r"_[0-9a-f]{32}", "", fn.__name__), unresolved=names),
                          {"monitor": "closure", "names": names, "kind": context.get("kind")})


PLAUSIBLE_MODULE_NAMES = ["cache", "partial", "reduce", "wraps", "chain", "field", "fields", "replace", "asdict", "helpers", "common", "config",
                          "models", "schema", "utils", "const", "dialect", "mixins", "codecs", "exceptions", "registry", "pack", "unpack", "builder",
                          "meta", "core", "mixin", "base", "app", "domain", "entities", "dto", "suppress", "copy", "deepcopy", "defaultdict", "namedtuple",
                          "Optional", "Any", "Callable", "Iterable", "Mapping", "Sequence", "Type", "Union", "cast", "overload", "final", "random_hex",
                          # names that generated functions use for their own parameters and local variables
                          "value", "d", "key", "kwargs", "cls", "self", "fields", "variant", "variants", "variants_map", "discriminator", "encoder", "decoder",
                          "dialect", "default_dialect", "item", "items", "result", "obj", "data", "context", "omit_none", "by_alias", "variant_tags", "tag",
                          "name", "names", "idx", "attrs", "holder", "packer", "unpacker", "pack", "unpack", "spec", "v", "k", "e", "x", "n", "m", "t",
                          "__value", "values", "keys", "mapping", "record", "payload", "event", "events", "user", "users", "order", "orders", "types_", "enums"]

MODULE_NAME_SRC = """
import enum, pathlib
from dataclasses import dataclass, field
from typing import NamedTuple, Optional, List, Dict, Union, TypedDict
from mashumaro import DataClassDictMixin
from mashumaro.mixins.msgpack import DataClassMessagePackMixin
from mashumaro.config import BaseConfig, ADD_DIALECT_SUPPORT
from mashumaro.dialect import Dialect
class EmptyD(Dialect):
    pass
class Policy(enum.Enum):
    A = 'a'
    B = 'b'
class NT(NamedTuple):
    p: Policy
    n: int = 0
class TDc(TypedDict, total=False):
    p: Policy
class MyPath(pathlib.PurePosixPath):
    pass
@dataclass
class Inner:
    p: Policy = Policy.A
@dataclass
class U1:
    a: Policy
@dataclass
class U2:
    b: int
@dataclass
class M(DataClassMessagePackMixin):
    p: Policy
    nt: NT
    inner: Inner
    path: MyPath
    ps: List[Policy] = field(default_factory=list)
    op: Optional[Policy] = None
    mp: Dict[str, Policy] = field(default_factory=dict)
    td: TDc = field(default_factory=dict)
    u: Union[U1, U2] = field(default_factory=lambda: U2(3))
    d: Policy = Policy.B
    class Config(BaseConfig):
        omit_default = True
        code_generation_options = [ADD_DIALECT_SUPPORT]
"""


def module_name_case(rng, tier, rec, st):
    """the schema classes live in a user's top-level module called like something the library imports or defines in the
    module of its code generator (its globals seed every generated namespace)."""
    import sys
    import types
    import keyword
    from mashumaro.core.meta.code import builder as _b
    lib = sorted(k for k in vars(_b) if not k.startswith("__") and k.isidentifier() and not keyword.iskeyword(k))
    for name in rng.sample(lib, 2) + rng.sample(PLAUSIBLE_MODULE_NAMES, 7):
        _module_name_trial(name, lib, rec, st)


def _module_name_trial(name, lib, rec, st):
    import sys
    import types
    saved = sys.modules.get(name)
    m = types.ModuleType(name)
    sys.modules[name] = m
    facts = {"scenario": "module-name", "module_name": name, "is_global_of_code_generator": name in lib, "monitor": "module-name"}
    try:
        try:
            exec(MODULE_NAME_SRC, m.__dict__)
        except Exception as e:
            if saved is not None:
                rec.count("module_name_shadows_a_real_module_skipped")      # the harness itself cannot import through a fake stdlib module
                return
            raise
        try:
            from mashumaro.codecs.basic import BasicDecoder, BasicEncoder
            x = m.M(m.Policy.A, m.NT(m.Policy.B, 1), m.Inner(), m.MyPath("/a"), [m.Policy.A], m.Policy.A, {"k": m.Policy.A}, m.TDc(p=m.Policy.B), m.U1(m.Policy.A))
            d = x.to_dict()
            y = m.M.from_dict(d)
            problems = []
            if y != x or type(y.p) is not m.Policy or type(y.nt) is not m.NT or type(y.path) is not m.MyPath:
                problems.append(f"round trip: {y!r}")
            if m.M.from_msgpack(x.to_msgpack()) != x:
                problems.append("msgpack round trip")
            if BasicDecoder(m.M).decode(BasicEncoder(m.M).encode(x)) != x:
                problems.append("codec round trip")
            if m.M.from_dict(x.to_dict(dialect=m.EmptyD), dialect=m.EmptyD) != x:
                problems.append("round trip under a call dialect")
            try:
                m.M.from_dict({})
                problems.append("no MissingField")
            except Exception as e:
                if type(e).__name__ != "MissingField":
                    problems.append(f"missing key: {type(e).__name__}: {e}"[:200])
            try:
                m.M.from_dict({"p": "zzz", "nt": ["a"], "inner": {}, "path": "/"})
                problems.append("no InvalidFieldValue")
            except Exception as e:
                if type(e).__name__ != "InvalidFieldValue" or type(e.__context__).__name__ != "ValueError":
                    problems.append(f"bad enum value: {type(e).__name__} / {type(e.__context__).__name__}: {e.__context__}"[:200])
        except Exception as e:
            problems = [f"{type(e).__name__}: {e}"[:200]]
        if problems:
            rec.violation("module-name:classes-of-a-module-named-like-a-library-name-are-not-reached", {"module_name": name, "problems": problems}, facts)
        else:
            rec.count("module_name_ok")
            rec.nontrivial(("module-name", name))
    finally:
        if saved is not None:
            sys.modules[name] = saved
        else:
            sys.modules.pop(name, None)
        # the functions generated here are judged by what they did above, not by the closure walk of a later case
        for i in st["gen"].functions:
            st["walked"].add(i)


def nested_specialisations_case(rng, tier, rec, st):
    """one specialisation of a generic dataclass met WHILE another specialisation of the same class is being compiled
    (Page[Post], where the plain class Post holds a Page[Tag]): every specialisation gets its own compiled method."""
    from mashumaro.codecs.basic import BasicDecoder, BasicEncoder
    fam = Family("c17", future_annotations=rng.random() < 0.2)
    try:
        gmix = "DataClassDictMixin, " if rng.random() < 0.3 else ""
        pmix = "(DataClassDictMixin)" if rng.random() < 0.3 else ""
        lazy = "    class Config(BaseConfig):\n        lazy_compilation = True\n" if rng.random() < 0.3 else ""
        fam.exec_src("T = TypeVar('T')\n"
                     f"@dataclass\nclass Page({gmix}Generic[T]):\n    items: List[T] = field(default_factory=list)\n    first: Optional[T] = None\n"
                     "@dataclass\nclass Tag:\n    name: str = ''\n    since: Optional[datetime.date] = None\n"
                     f"@dataclass\nclass Post{pmix}:\n    title: str = ''\n    tags: Page[Tag] = field(default_factory=Page)\n    more: Optional[Page[datetime.date]] = None\n"
                     f"@dataclass\nclass Blog(DataClassDictMixin):\n    posts: Page[Post] = field(default_factory=Page)\n    drafts: Dict[str, Page[Post]] = field(default_factory=dict)\n" + lazy)
        m = fam.module
        import datetime
        tag = m.Tag("t", datetime.date(2020, 1, 2))
        post = m.Post("p", m.Page([tag], tag), m.Page([datetime.date(2021, 2, 3)], None))
        blog = m.Blog(m.Page([post], post), {"d": m.Page([post], None)})
        ctx = {"source": "".join(fam.sources[1:])}
        facts = {"scenario": "nested-specialisations", "monitor": "nested-specialisations"}
        routes = [("mixin", lambda: m.Blog.from_dict(blog.to_dict())), ("codec", lambda: BasicDecoder(m.Blog).decode(BasicEncoder(m.Blog).encode(blog))),
                  ("codec-of-the-specialisation", lambda: m.Blog(BasicDecoder(eval("Page[Post]", m.__dict__)).decode(BasicEncoder(eval("Page[Post]", m.__dict__)).encode(blog.posts)), blog.drafts))]
        rng.shuffle(routes)
        for name, fn in routes:
            rec.evaluation()
            try:
                back = fn()
            except Exception as e:
                rec.violation(f"nested-specialisations:{name}:{type(e).__name__}", dict(ctx, error=f"{type(e).__name__}: {e}"[:300], cause=repr(e.__context__)[:200]), dict(facts, exc=type(e).__name__))
                continue
            if back == blog and type(back.posts.items[0].tags.items[0]) is m.Tag and type(back.posts.items[0].more.items[0]) is datetime.date:
                rec.count("nested_specialisations_ok")
                rec.nontrivial(("nested-specialisations", name, gmix, pmix, bool(lazy)))
            else:
                rec.violation(f"nested-specialisations:{name}:wrong-value", dict(ctx, observed=common.short(back, 400)), facts)
        walk_new_functions(rec, st, dict(ctx, kind="nested-specialisations"))
    finally:
        fam.dispose()


def late_specialisation_case(rng, tier, rec, st):
    """specialisations of a generic dataclass that are compiled LATE (lazy_compilation, first call with a dialect, a postponed
    annotation) and whose type argument cannot be found again by its dotted name: a class later shadowed by a newer class of the
    same name.  The argument is bound by identity, late or not."""
    from mashumaro.codecs.basic import BasicDecoder, BasicEncoder
    fam = Family("c17", future_annotations=rng.random() < 0.3)
    try:
        # (only ONE of the two homonymous classes is used as an argument: specialisations are told apart by the rendered name of
        # their arguments; lazy_compilation is left out: a lazily compiled class looks its member classes up by dotted name at first use, the
        # recorded finding F13, which the 'rebound' identity cases observe)
        late = rng.choice(["call-dialect", "call-dialect", "eager"])
        opts = []
        if "lazy" in late:
            opts.append("lazy_compilation = True")
        if "call-dialect" in late:
            opts.append("code_generation_options = [ADD_DIALECT_SUPPORT]")
        cfg = ("    class Config(BaseConfig):\n" + "".join(f"        {o}\n" for o in opts)) if opts else ""
        gmix = "DataClassDictMixin, " if rng.random() < 0.5 or "call-dialect" in late else ""
        fam.module.dataclasses = __import__("dataclasses")
        fam.exec_src("T = TypeVar('T')\nclass DD(Dialect):\n    serialization_strategy = {datetime.date: {'serialize': lambda d: d.toordinal(), 'deserialize': datetime.date.fromordinal}}\n"
                     f"@dataclass\nclass Page({gmix}Generic[T]):\n    items: List[T] = field(default_factory=list)\n    first: Optional[T] = None\n" + cfg +
                     "@dataclass\nclass Money:\n    amount: int = 0\n    on: Optional[datetime.date] = None\nLegacyMoney = Money\n"
                     "@dataclass\nclass Money:\n    value: str = ''\n    currency: str = 'EUR'\n"
                     "@dataclass\nclass Tag:\n    name: str = ''\n"
                     "@dataclass\nclass Wallet(DataClassDictMixin):\n    legacy: Page[LegacyMoney] = field(default_factory=Page)\n    tags: Page[Tag] = field(default_factory=Page)\n"
                     "    by_day: Dict[str, Page[LegacyMoney]] = field(default_factory=dict)\n" + cfg)
        m = fam.module
        import datetime
        old, new, tag = m.LegacyMoney(5, datetime.date(2020, 1, 2)), m.Money("7", "USD"), m.Tag("t")
        w = m.Wallet(m.Page([old], old), m.Page([tag], None), {"d": m.Page([old], None)})
        ctx = {"source": "".join(fam.sources[1:]), "late": late}
        facts = {"scenario": "late-specialisation", "monitor": "late-specialisation", "late": late}
        kw = {"dialect": m.DD} if "call-dialect" in late else {}
        routes = [("mixin", lambda: m.Wallet.from_dict(w.to_dict(**kw), **kw)), ("codec", lambda: BasicDecoder(m.Wallet).decode(BasicEncoder(m.Wallet).encode(w)))]
        if gmix:
            PL = eval("Page[LegacyMoney]", m.__dict__)
            routes.append(("specialisation-itself", lambda: m.Wallet(PL.from_dict(w.legacy.to_dict(**kw), **kw), w.tags, w.by_day)))
        rng.shuffle(routes)
        for name, fn in routes:
            rec.evaluation()
            try:
                back = fn()
            except Exception as e:
                rec.violation(f"late-specialisation:{name}:{type(e).__name__}", dict(ctx, error=f"{type(e).__name__}: {e}"[:300], cause=repr(e.__context__)[:200]), dict(facts, exc=type(e).__name__))
                continue
            if (back == w and type(back.legacy.items[0]) is m.LegacyMoney and type(back.legacy.first) is m.LegacyMoney
                    and type(back.tags.items[0]) is m.Tag and type(back.by_day["d"].items[0]) is m.LegacyMoney):
                rec.count("late_specialisations_ok")
                rec.nontrivial(("late-specialisation", name, late, gmix))
            else:
                rec.violation(f"late-specialisation:{name}:instances-of-another-class", dict(ctx, observed=common.short(back, 400), expected=common.short(w, 400)), facts)
        walk_new_functions(rec, st, dict(ctx, kind="late-specialisation"))
    finally:
        fam.dispose()


def cross_module_discriminator_case(rng, tier, rec, st):
    """a member with a field-level Discriminator whose variants live in ANOTHER module than the class that declares the
    member, and no other annotation of that class mentions its own module: the dispatcher keeps its registry on the declaring
    class and has to be able to name it."""
    from mashumaro.codecs.basic import BasicDecoder
    other = Family("c17var")
    fam = Family("c17", future_annotations=rng.random() < 0.2)
    try:
        other.exec_src("@dataclass\nclass Base:\n    x: int = 0\n@dataclass\nclass V1(Base):\n    kind = 'v1'\n@dataclass\nclass V2(Base):\n    kind = 'v2'\n    y: Optional[datetime.date] = None\n")
        fam.module.other = other.module
        how = rng.choice(["direct", "list", "optional", "dict"])
        ann = {"direct": "Annotated[other.Base, DSC]", "list": "List[Annotated[other.Base, DSC]]", "optional": "Optional[Annotated[other.Base, DSC]]",
               "dict": "Dict[str, Annotated[other.Base, DSC]]"}[how]
        mixin = rng.random() < 0.7
        lazy = "    class Config(BaseConfig):\n        lazy_compilation = True\n" if rng.random() < 0.2 else ""
        fam.exec_src(f"DSC = Discriminator(field='kind', include_{rng.choice(['subtypes', 'subtypes', 'supertypes'])}=True)\n"
                     f"@dataclass\nclass Holder{'(DataClassDictMixin)' if mixin else ''}:\n    a: {ann}\n    n: int = 0\n" + lazy)
        m, o = fam.module, other.module
        supertypes = "include_supertypes" in fam.sources[-1]
        if supertypes:
            # only the annotated class itself is a variant: it needs a tag of its own
            o.Base.kind = "base"
        tag, cls, extra = rng.choice([("v1", o.V1, {}), ("v2", o.V2, {"y": "2020-01-02"})]) if not supertypes else ("base", o.Base, {})
        inner = dict({"kind": tag, "x": 3}, **extra)
        doc = {"a": {"direct": inner, "list": [inner, dict(inner)], "optional": inner, "dict": {"k": inner}}[how]}
        ctx = {"source": "".join(other.sources[1:]) + "# ---- the holder's module\n" + "".join(fam.sources[1:])}
        facts = {"scenario": "cross-module-discriminator", "monitor": "cross-module-discriminator", "how": how}
        routes = [("codec", lambda: BasicDecoder(m.Holder).decode(doc))]
        if mixin:
            routes.append(("mixin", lambda: m.Holder.from_dict(doc)))
        rng.shuffle(routes)
        for name, fn in routes:
            rec.evaluation()
            try:
                back = fn()
            except Exception as e:
                rec.violation(f"cross-module-discriminator:{name}:{type(e).__name__}", dict(ctx, error=f"{type(e).__name__}: {e}"[:300], cause=repr(e.__context__)[:200]), dict(facts, exc=type(e).__name__))
                continue
            got = {"direct": [back.a], "list": back.a, "optional": [back.a], "dict": list(back.a.values()) if isinstance(back.a, dict) else [back.a]}[how]
            if all(type(g) is cls and g.x == 3 for g in got):
                rec.count("cross_module_discriminators_ok")
                rec.nontrivial(("cross-module-discriminator", name, how, tag, mixin, bool(lazy)))
            else:
                rec.violation(f"cross-module-discriminator:{name}:wrong-class-or-value", dict(ctx, observed=common.short(back, 300)), facts)
        walk_new_functions(rec, st, dict(ctx, kind="cross-module-discriminator"))
    finally:
        fam.dispose()
        other.dispose()


CONTAINER_SUBCLASSES = {
    "History": ("class History(collections.deque):\n    pass\n", "History([1, 2])", [1, 2]),
    "Inventory": ("class Inventory(collections.Counter):\n    pass\n", "Inventory({'a': 2})", {"a": 2}),
    "Registry": ("class Registry(collections.OrderedDict):\n    pass\n", "Registry([('k', 1)])", {"k": 1}),
    "Defaults": ("class Defaults(collections.defaultdict):\n    pass\n", "Defaults(None, {'k': 1})", {"k": 1}),
    "Layers": ("class Layers(collections.ChainMap):\n    pass\n", "Layers({'a': 1}, {'b': 2})", [{"a": 1}, {"b": 2}]),
}


def container_subclass_case(rng, tier, rec, st):
    """members typed by a USER subclass of a collections container, in a class none of whose other annotations names the
    collections package: the generated code builds collections.deque(...) & co. and has to bind that module itself."""
    import collections
    from mashumaro.codecs.basic import BasicDecoder, BasicEncoder
    x = rng.random()
    if x < 0.25:
        return local_default_factory_case(rng, tier, rec, st)
    if x < 0.5:
        return local_type_argument_case(rng, tier, rec, st)
    fam = Family("c17", future_annotations=rng.random() < 0.2)
    try:
        names = rng.sample(sorted(CONTAINER_SUBCLASSES), rng.randint(1, 2))
        mixin = rng.random() < 0.6
        fam.exec_src("".join(CONTAINER_SUBCLASSES[n][0] for n in names))
        fam.exec_src(f"@dataclass\nclass Shelf{'(DataClassDictMixin)' if mixin else ''}:\n" + "".join(f"    f{i}: {n}\n" for i, n in enumerate(names)) + "    n: int = 0\n"
                     + ("    class Config(BaseConfig):\n        lazy_compilation = True\n" if rng.random() < 0.2 else ""))
        m = fam.module
        vals = [eval(CONTAINER_SUBCLASSES[n][1], m.__dict__) for n in names]
        v = m.Shelf(*vals)
        doc = dict({f"f{i}": CONTAINER_SUBCLASSES[n][2] for i, n in enumerate(names)}, n=0)
        ctx = {"source": "".join(fam.sources[1:])}
        facts = {"scenario": "container-subclass", "monitor": "container-subclass", "containers": names}
        routes = [("codec", lambda: (BasicEncoder(m.Shelf).encode(v), BasicDecoder(m.Shelf).decode(doc)))]
        if mixin:
            routes.append(("mixin", lambda: (v.to_dict(), m.Shelf.from_dict(doc))))
        routes.append(("codec-of-the-container", lambda: ({"f0": BasicEncoder(getattr(m, names[0])).encode(vals[0]), **{k: x for k, x in doc.items() if k != "f0"}},
                                                           m.Shelf(BasicDecoder(getattr(m, names[0])).decode(doc["f0"]), *vals[1:]))))
        rng.shuffle(routes)
        bases = {"History": collections.deque, "Inventory": collections.Counter, "Registry": collections.OrderedDict, "Defaults": collections.defaultdict, "Layers": collections.ChainMap}
        for name, fn in routes:
            rec.evaluation()
            try:
                out, back = fn()
            except Exception as e:
                rec.violation(f"container-subclass:{name}:{type(e).__name__}", dict(ctx, error=f"{type(e).__name__}: {e}"[:300], cause=repr(e.__context__)[:200]), dict(facts, exc=type(e).__name__))
                continue
            got = [getattr(back, f"f{i}") for i in range(len(names))]
            if out == doc and all(isinstance(g, bases[n]) and (list(g) == list(x) if n == "History" else g == x) for g, x, n in zip(got, vals, names)):
                rec.count("container_subclasses_ok")
                rec.nontrivial(("container-subclass", name, tuple(names), mixin))
            else:
                rec.violation(f"container-subclass:{name}:wrong-value", dict(ctx, observed=[common.short(out, 200), common.short(back, 200)], expected=common.short(doc, 200)), facts)
        walk_new_functions(rec, st, dict(ctx, kind="container-subclass"))
    finally:
        fam.dispose()


def local_type_argument_case(rng, tier, rec, st):
    """a generic dataclass specialised (through inheritance or as a member type) with a class defined inside a function: the
    name generated code uses for the argument is bound to that class, not to the type variable it replaces."""
    from mashumaro.codecs.basic import BasicDecoder, BasicEncoder
    fam = Family("c17")
    try:
        akind = rng.choice(["enum", "dataclass", "strenum"])
        asrc = {"enum": "    class Arg(enum.Enum):\n        R = 1\n        G = 2\n", "strenum": "    class Arg(str, enum.Enum):\n        R = 'r'\n        G = 'g'\n",
                "dataclass": "    @dataclass\n    class Arg:\n        n: int = 0\n"}[akind]
        how = rng.choice(["inherit", "member"])
        mixin = "DataClassDictMixin, " if rng.random() < 0.7 else ""
        src = ("T = TypeVar('T')\ndef make():\n" + asrc +
               f"    @dataclass\n    class Box({mixin}Generic[T]):\n        x: T\n        xs: List[T] = field(default_factory=list)\n        o: Optional[T] = None\n" +
               ("    @dataclass\n    class Out(Box[Arg]):\n        pass\n" if how == "inherit" else
                f"    @dataclass\n    class Out({mixin.rstrip(', ')}):\n        b: Box[Arg]\n".replace("Out()", "Out")) +
               "    return Arg, Box, Out\nArg, Box, Out = make()\n")
        ctx = {"source": src}
        facts = {"scenario": "local-type-argument", "monitor": "container-subclass", "argument": akind, "how": how}
        rec.evaluation()
        try:
            fam.exec_src(src)
        except Exception as e:
            rec.violation(f"local-type-argument:class-build:{type(e).__name__}", dict(ctx, error=f"{type(e).__name__}: {e}"[:300]), dict(facts, exc=type(e).__name__))
            return
        m = fam.module
        a1, a2, w1, w2 = {"enum": (m.Arg.R, m.Arg.G, 1, 2), "strenum": (m.Arg.R, m.Arg.G, "r", "g"), "dataclass": (m.Arg(1), m.Arg(2), {"n": 1}, {"n": 2})}[akind]
        inner_doc = {"x": w1, "xs": [w2, w1], "o": None}
        v, doc = (m.Out(a1, [a2, a1]), inner_doc) if how == "inherit" else (m.Out(m.Box(a1, [a2, a1])), {"b": inner_doc})
        routes = [("codec", lambda: (BasicEncoder(m.Out).encode(v), BasicDecoder(m.Out).decode(doc)))] + ([("mixin", lambda: (v.to_dict(), m.Out.from_dict(doc)))] if mixin else [])
        for name, fn in routes:
            rec.evaluation()
            try:
                out, back = fn()
            except Exception as e:
                rec.violation(f"local-type-argument:{name}:{type(e).__name__}", dict(ctx, error=f"{type(e).__name__}: {e}"[:300], cause=repr(e.__context__)[:200]), dict(facts, exc=type(e).__name__))
                continue
            box = back if how == "inherit" else back.b
            if out == doc and back == v and type(box.x) is m.Arg and type(box.xs[0]) is m.Arg:
                rec.count("container_subclasses_ok")
                rec.nontrivial(("local-type-argument", name, akind, how, bool(mixin)))
            else:
                rec.violation(f"local-type-argument:{name}:wrong-class-or-value", dict(ctx, observed=[common.short(out, 200), common.short(back, 200)]), facts)
        walk_new_functions(rec, st, dict(ctx, kind="local-type-argument"))
    finally:
        fam.dispose()


def local_default_factory_case(rng, tier, rec, st):
    """DefaultDict[K, C] with C defined inside a function: the factory of the rebuilt defaultdict is C itself (by identity)."""
    from mashumaro.codecs.basic import BasicDecoder
    fam = Family("c17")
    try:
        mixin = rng.random() < 0.6
        vkind = rng.choice(["dataclass", "enumdefault", "list"])
        vsrc = {"dataclass": "    @dataclass\n    class Local:\n        x: int = 0\n", "enumdefault": "    class Local(int):\n        pass\n",
                "list": "    Local = list\n"}[vkind]
        vann = {"dataclass": "Local", "enumdefault": "int", "list": "List[int]"}[vkind]
        src = ("def make():\n" + vsrc +
               f"    @dataclass\n    class B{'(DataClassDictMixin)' if mixin else ''}:\n"
               f"        m: DefaultDict[str, {'Local' if vkind == 'dataclass' else vann}] = field(default_factory=lambda: collections.defaultdict(Local))\n"
               "    return Local, B\nLocal, B = make()\n")
        ctx = {"source": src}
        facts = {"scenario": "local-default-factory", "monitor": "container-subclass", "value_kind": vkind}
        rec.evaluation()
        try:
            fam.exec_src(src)
        except Exception as e:
            rec.violation(f"local-default-factory:class-build:{type(e).__name__}", dict(ctx, error=f"{type(e).__name__}: {e}"[:300]), dict(facts, exc=type(e).__name__))
            return
        m = fam.module
        doc = {"m": {"k": {"dataclass": {"x": 1}, "enumdefault": 5, "list": [1]}[vkind]}}
        routes = [("codec", lambda: BasicDecoder(m.B).decode(doc))] + ([("mixin", lambda: m.B.from_dict(doc))] if mixin else [])
        for name, fn in routes:
            rec.evaluation()
            try:
                back = fn()
                # (what the factory of the rebuilt defaultdict makes is only looked at for the local class: for typing.List[int]
                # the library passes the alias itself, which cannot be called - no property speaks about the factory)
                missing = back.m["absent"] if vkind == "dataclass" else None
            except Exception as e:
                rec.violation(f"local-default-factory:{name}:{type(e).__name__}", dict(ctx, error=f"{type(e).__name__}: {e}"[:300], cause=repr(e.__context__)[:200]), dict(facts, exc=type(e).__name__))
                continue
            want = {"dataclass": m.Local, "enumdefault": int, "list": list}[vkind]
            if type(back.m["k"]) is want and (vkind != "dataclass" or type(missing) is m.Local):
                rec.count("container_subclasses_ok")
                rec.nontrivial(("local-default-factory", name, vkind, mixin))
            else:
                rec.violation(f"local-default-factory:{name}:wrong-class-or-value", dict(ctx, observed=common.short(back, 200), factory_made=repr(missing)[:80]), facts)
        walk_new_functions(rec, st, dict(ctx, kind="local-default-factory"))
    finally:
        fam.dispose()


def foreign_default_case(rng, tier, rec, st):
    """a default VALUE whose class comes from a module no annotation of the class mentions (an IntEnum member as the default
    of an int field, ...): comparing with it (omit_default) and rendering it must not need that module by name."""
    other = Family("c17dflt")
    fam = Family("c17", future_annotations=rng.random() < 0.2)
    try:
        other.exec_src("class Priority(enum.IntEnum):\n    LOW = 1\n    NORMAL = 5\nclass Mode(str, enum.Enum):\n    R = 'r'\n    W = 'w'\n"
                       "class Level(enum.Enum):\n    A = 'a'\n")
        fam.module.other = other.module
        od = rng.choice(["Config", "dialect", "call"])
        cfg = {"Config": "    class Config(BaseConfig):\n        omit_default = True\n",
               "dialect": "    class Config(BaseConfig):\n        dialect = OD\n",
               "call": "    class Config(BaseConfig):\n        code_generation_options = [ADD_DIALECT_SUPPORT]\n"}[od]
        mixin = rng.random() < 0.7
        fam.exec_src("class OD(Dialect):\n    omit_default = True\n"
                     f"@dataclass\nclass FD{'(DataClassDictMixin)' if mixin or od == 'call' else ''}:\n    prio: int = other.Priority.NORMAL\n    mode: str = other.Mode.R\n"
                     "    anyv: Any = other.Level.A\n    tup: Tuple[int, str] = (other.Priority.LOW, other.Mode.W)\n    n: int = 0\n" + cfg)
        cls = fam.module.FD
        ctx = {"source": "".join(fam.sources[1:]), "omit_default_from": od}
        facts = {"scenario": "foreign-default", "monitor": "foreign-default"}
        from mashumaro.codecs.basic import BasicEncoder
        kw = {"dialect": fam.module.OD} if od == "call" else {}
        enc = (lambda o: o.to_dict(**kw)) if hasattr(cls, "to_dict") else BasicEncoder(cls).encode
        for inst, exp in ((cls(), {}), (cls(prio=1, mode="w", n=3), {"prio": 1, "mode": "w", "n": 3})):
            rec.evaluation()
            try:
                out = enc(inst)
            except Exception as e:
                rec.violation(f"foreign-default:{type(e).__name__}", dict(ctx, error=f"{type(e).__name__}: {e}"[:300]), dict(facts, exc=type(e).__name__))
                continue
            if out == exp:
                rec.count("foreign_default_ok")
                rec.nontrivial(("foreign-default", od, mixin, repr(exp)))
            else:
                rec.violation("foreign-default:wrong-projection", dict(ctx, observed=common.short(out), expected=common.short(exp)), facts)
        walk_new_functions(rec, st, dict(ctx, kind="foreign-default"))
    finally:
        fam.dispose()
        other.dispose()


def schema_case(rng, tier, rec, st):
    from mashumaro.codecs.basic import BasicDecoder, BasicEncoder
    fam = Family("c17", future_annotations=rng.random() < 0.15)
    raise_mon = st.get("raise")
    try:
        local = rng.random() < 0.3
        tg = TypeGen(fam, rng, dc_config_fn=config_fn, mixins=("DataClassDictMixin", "DataClassORJSONMixin", "DataClassMessagePackMixin"))
        if rng.random() < 0.3:
            # fields whose (de)serialization is overridden: the type is then only mentioned in error-reporting
            # expressions, so its module must still be reachable from the generated namespace
            elem = rng.choice(["decimal.Decimal", "fractions.Fraction", "ipaddress.IPv4Address", "uuid.UUID", "pathlib.PurePosixPath",
                               "zoneinfo.ZoneInfo", "datetime.timedelta", "re.Pattern", "collections.OrderedDict[str, int]", "types.MappingProxyType[str, int]"])
            cont = rng.choice(["list[{}]", "dict[str, {}]", "tuple[{}, ...]", "List[{}]", "set[{}]", "types.MappingProxyType[str, {}]", "{}", "Optional[{}]"]).format(elem)
            how = rng.choice(["serialize=pass_through, deserialize=pass_through", "serialization_strategy=pass_through",
                              "deserialize=lambda v: v", "serialize=lambda v: v", "serialization_strategy={'deserialize': (lambda v: v)}"])
            dflt = rng.choice(["", "default=None, "])
            name = tg.fresh("OV")
            fam.exec_src(f"@dataclass\nclass {name}(DataClassDictMixin):\n    first: int\n    x: {cont} = field({dflt}metadata=field_options({how}))\n"
                         + ("    class Config(BaseConfig):\n        forbid_extra_keys = True\n" if rng.random() < 0.3 else ""))
            fam.defs[name] = {"k": "dc", "name": name, "bases": [], "mixin": "DataClassDictMixin",
                              "fields": [{"n": "first", "t": ("int",)}, {"n": "x", "t": ("any",), **({"dmode": "default", "dseed": 0} if dflt else {})}]}
            if dflt:
                fam.values[(name, "x")] = None
            t = ("dc", name)
        else:
            t = tg.dataclass(rng.randint(0, 2), nfields=rng.randint(1, 4))
        name = t[1]
        cls = fam.get(name)
        ctx = {"family": fam.to_json()}
        if raise_mon:
            raise_mon.window()
        try:
            enc, dec = BasicEncoder(cls), BasicDecoder(cls)
        except Exception as e:
            rec.violation(f"codec-build:{type(e).__name__}", dict(ctx, error=f"{type(e).__name__}: {e}"[:300]), {"stage": "build", "exc": type(e).__name__})
            return
        vg = Gen(fam, rng)
        v = vg.instance(name, 3)
        decoders = [dec.decode] + ([cls.from_dict] if hasattr(cls, "from_dict") else [])
        try:
            d0 = enc.encode(v)
        except Exception as e:
            d0 = None
            if type(e).__name__ in ("NameError", "UnboundLocalError"):
                rec.violation(f"escaped:{type(e).__name__}:encode", dict(ctx, error=str(e)[:200]), {"monitor": "dynamic"})
        inputs = []
        if isinstance(d0, dict):
            for k in list(d0):
                dd = dict(d0)
                del dd[k]
                inputs.append(dd)
                for jv in rng.sample(junk_pool(), 4):
                    dd = dict(d0)
                    dd[k] = jv
                    inputs.append(dd)
            inputs.append(dict(d0, stranger=1))
        inputs += [{}, [], None, "x", 5]
        for d in inputs:
            for fn in decoders:
                rec.count("error_paths_provoked")
                try:
                    fn(d)
                except (NameError, UnboundLocalError) as e:
                    rec.violation(f"escaped:{type(e).__name__}", dict(ctx, input=common.short(d), error=str(e)[:200]), {"monitor": "dynamic", "msg": str(e)[:80]})
                except Exception:
                    pass
        # serialization error paths: wrong-typed attribute values
        for f in fam.dc_fields(name)[:3]:
            try:
                bad = vg.instance(name, 2)
                object.__setattr__(bad, f["n"], object())
                enc.encode(bad)
            except (NameError, UnboundLocalError) as e:
                rec.violation(f"escaped:{type(e).__name__}:encode", dict(ctx, field=f["n"], error=str(e)[:200]), {"monitor": "dynamic", "msg": str(e)[:80]})
            except Exception:
                pass
        if raise_mon:
            for ename, msg, fname in raise_mon.window():
                if ename in ("NameError", "UnboundLocalError"):
                    rec.violation(f"swallowed:{ename}", dict(ctx, message=msg, function=fname), {"monitor": "dynamic", "msg": msg[:80]})
        walk_new_functions(rec, st, ctx)
        rec.nontrivial(("schema", tuple(tast.shape_hash(f["t"]) for f in fam.dc_fields(name))))
        if rng.random() < 0.02:
            rec.sample({"monitor": "dynamic+closure", "schema": fam.to_json()["source"][-500:], "error_inputs": len(inputs)})
    finally:
        fam.dispose()


# ------------------------------------------------------------------ (c) identity
def identity_case(rng, tier, rec, st):
    from mashumaro.codecs.basic import BasicDecoder, BasicEncoder
    kind = rng.choice(["local_dc", "local_enum", "two_modules_dc", "two_modules_enum", "generator_global_name",
                       "functional_nt", "functional_td", "make_dataclass", "rebound", "two_modules_generic",
                       "non_ascii_names", "literal_mixin_enum_other_module"])
    fam = Family("c17i", future_annotations=False)
    other = Family("c17o")
    facts = {"monitor": "identity", "kind": kind}
    try:
        wrap = rng.choice(["{}", "Optional[{}]", "List[{}]", "Dict[str, {}]", "Tuple[{}, int]"])
        mixin = rng.random() < 0.6
        base = "(DataClassDictMixin)" if mixin else ""

        def holder(t1, t2):
            return (f"@dataclass\nclass H{base}:\n    a: {wrap.format(t1)}\n    b: {wrap.format(t2)}\n")
        if kind == "local_dc":
            fam.exec_src("def mk(v):\n    @dataclass\n    class In" + base + ":\n        x: int = v\n    return In\nI1, I2 = mk(1), mk(2)\n" + holder("I1", "I2"))
            c1, c2, mkv = fam.module.I1, fam.module.I2, (lambda c: c(7))
            wire = {"x": 7}
        elif kind == "local_enum":
            fam.exec_src("def mk(v):\n    class E(enum.Enum):\n        A = v\n    return E\nE1, E2 = mk(1), mk(2)\n" + holder("E1", "E2"))
            c1, c2 = fam.module.E1, fam.module.E2
            mkv = lambda c: c.A
            wire = None
        elif kind == "two_modules_dc":
            other.exec_src("@dataclass\nclass Item" + base + ":\n    sku: str = 'o'\n")
            fam.module.other = other.module
            fam.exec_src("@dataclass\nclass Item" + base + ":\n    name: str = 'i'\n" + holder("Item", "other.Item"))
            c1, c2, mkv = fam.module.Item, other.module.Item, (lambda c: c("v"))
            wire = None
        elif kind == "two_modules_enum":
            other.exec_src("class Color(enum.Enum):\n    R = 'or'\n")
            fam.module.other = other.module
            fam.exec_src("class Color(enum.Enum):\n    R = 'r'\n" + holder("Color", "other.Color"))
            c1, c2, mkv = fam.module.Color, other.module.Color, (lambda c: c.R)
            wire = None
        elif kind == "non_ascii_names":
            # two classes whose names differ only in non-ASCII letters (identifiers derived from them must not collide)
            n1, n2 = rng.choice([("Größe", "Grüße"), ("名前", "住所"), ("Ünit", "Änit"), ("Δx", "Ωx")])
            enumlike = rng.random() < 0.4
            if enumlike:
                fam.exec_src(f"class {n1}(enum.Enum):\n    A = 1\nclass {n2}(enum.Enum):\n    A = 2\n" + holder(n1, n2))
                c1, c2, mkv = getattr(fam.module, n1), getattr(fam.module, n2), (lambda c: c.A)
            else:
                fam.exec_src(f"@dataclass\nclass {n1}" + base + f":\n    x: int = 1\n@dataclass\nclass {n2}" + base + ":\n    y: str = 's'\n" + holder(n1, n2))
                c1, c2, mkv = getattr(fam.module, n1), getattr(fam.module, n2), (lambda c: c())
            wire = None
        elif kind == "literal_mixin_enum_other_module":
            # a Literal member that is a str/int-mixin enum member EQUAL to a plain constant listed earlier; the enum
            # lives in another module that nothing else in the class mentions
            other.exec_src("class Role(str, enum.Enum):\n    user = 'user'\n    admin = 'admin'\nclass Ver(enum.IntEnum):\n    v1 = 1\n")
            fam.module.roles = other.module
            fam.exec_src(f"@dataclass\nclass H{base}:\n    kind: Literal['user', 'bot']\n    rev: Literal[1, 2]\n    a: Literal[roles.Role.user]\n    b: Literal[roles.Ver.v1]\n")
            H = fam.module.H
            enc, dec = BasicEncoder(H), BasicDecoder(H)
            h = H("user", 1, other.module.Role.user, other.module.Ver.v1)
            routes = [("codec", enc.encode, dec.decode)] + ([("mixin", lambda x: x.to_dict(), H.from_dict)] if mixin else [])
            for rname, e, d in routes:
                rec.count("identity_checks")
                det = {"kind": kind, "route": rname, "source": "".join(fam.sources[1:]) + "".join(other.sources[1:])}
                try:
                    doc = e(h)
                    back = d(doc)
                    ok = back.a is other.module.Role.user and back.b is other.module.Ver.v1 and back == h
                    for bad in ({"kind": "user", "rev": 1, "a": "nobody", "b": 1}, {"kind": "user", "rev": 1}, {"kind": "x", "rev": 1, "a": "user", "b": 1}):
                        try:
                            d(bad)
                            ok = False
                        except (NameError, AttributeError):
                            raise
                        except Exception:
                            pass
                except Exception as ex:
                    rec.violation(f"identity:{kind}:exception:{type(ex).__name__}", dict(det, error=f"{type(ex).__name__}: {ex}"[:300]), dict(facts, exc=type(ex).__name__))
                    continue
                if not ok:
                    rec.violation(f"identity:{kind}:wrong-class-or-value", dict(det, document=common.short(doc), observed=common.short(back)), facts)
            walk_new_functions(rec, st, {"kind": kind})
            rec.nontrivial(("identity", kind, mixin))
            return
        elif kind == "generator_global_name":
            nm = rng.choice(["Field", "Dialect", "Alias", "MISSING", "CodeBuilder", "Discriminator", "ValueSpec", "typing", "uuid", "math", "enum"])
            facts["name"] = nm
            other.exec_src(f"@dataclass\nclass {nm}" + base + ":\n    q: int = 0\n")
            fam.module.OtherMod = other.module
            fam.exec_src(f"@dataclass\nclass Plain" + base + ":\n    p: int = 0\n" + holder("Plain", f"OtherMod.{nm}"))
            c1, c2, mkv = fam.module.Plain, getattr(other.module, nm), (lambda c: c(3))
            wire = None
        elif kind == "functional_nt":
            fam.exec_src("NT1 = NamedTuple('NT', [('x', int)])\nNT2 = NamedTuple('NT', [('y', str)])\n" + holder("NT1", "NT2"))
            c1, c2 = fam.module.NT1, fam.module.NT2
            mkv = lambda c: c(1) if c is c1 else c("s")
            wire = None
        elif kind == "functional_td":
            fam.exec_src("TD1 = TypedDict('TD', {'x': int})\nTD2 = TypedDict('TD', {'y': datetime.date})\n" + holder("TD1", "TD2"))
            c1, c2 = fam.module.TD1, fam.module.TD2
            import datetime
            mkv = lambda c: {"x": 1} if c is c1 else {"y": datetime.date(2020, 1, 2)}
            wire = None
        elif kind == "make_dataclass":
            fam.exec_src("M1 = dataclasses.make_dataclass('M', [('x', int, 1)])\nM2 = dataclasses.make_dataclass('M', [('y', str, 's')])\n" + holder("M1", "M2"))
            c1, c2, mkv = fam.module.M1, fam.module.M2, (lambda c: c())
            wire = None
        elif kind == "rebound":
            fam.exec_src("@dataclass\nclass Z" + base + ":\n    x: int = 1\nOldZ = Z\n@dataclass\nclass Z" + base + ":\n    y: str = 's'\n" + holder("OldZ", "Z"))
            c1, c2, mkv = fam.module.OldZ, fam.module.Z, (lambda c: c())
            wire = None
        else:  # two_modules_generic
            other.exec_src("@dataclass\nclass Item" + base + ":\n    sku: str = 'o'\n")
            fam.module.other = other.module
            fam.exec_src("T = TypeVar('T')\n@dataclass\nclass Item" + base + ":\n    name: str = 'i'\n"
                         f"@dataclass\nclass Page({'DataClassDictMixin, ' if mixin else ''}Generic[T]):\n    items: List[T] = field(default_factory=list)\n"
                         + holder("Page[Item]", "Page[other.Item]"))
            P = fam.module.Page
            c1, c2 = fam.module.Item, other.module.Item
            mkv = None
        H = fam.module.H
        enc, dec = BasicEncoder(H), BasicDecoder(H)

        def wrapv(v):
            return {"{}": v, "Optional[{}]": v, "List[{}]": [v], "Dict[str, {}]": {"k": v}, "Tuple[{}, int]": (v, 1)}[wrap]

        def unwrap(x):
            if wrap in ("{}", "Optional[{}]"):
                return x
            if wrap == "List[{}]":
                return x[0]
            if wrap == "Dict[str, {}]":
                return x["k"]
            return x[0]
        if kind == "two_modules_generic":
            va, vb = fam.module.Page([c1("a")]), fam.module.Page([c2("b")])
        else:
            va, vb = mkv(c1), mkv(c2)
        h = H(wrapv(va), wrapv(vb))
        routes = [("codec", enc.encode, dec.decode)]
        if mixin:
            routes.append(("mixin", lambda x: x.to_dict(), H.from_dict))
        for rname, e, d in routes:
            rec.count("identity_checks")
            det = {"kind": kind, "route": rname, "wrap": wrap, "source": "".join(fam.sources[1:]) + "".join(other.sources[1:])}
            try:
                doc = e(h)
                back = d(doc)
            except Exception as ex:
                rec.violation(f"identity:{kind}:exception:{type(ex).__name__}", dict(det, error=f"{type(ex).__name__}: {ex}"[:300]), dict(facts, exc=type(ex).__name__))
                continue
            ra, rb = unwrap(back.a), unwrap(back.b)
            if kind == "two_modules_generic":
                ok = type(ra.items[0]) is c1 and type(rb.items[0]) is c2 and ra.items[0] == c1("a") and rb.items[0] == c2("b")
            elif kind == "functional_td":
                ok = ra == va and rb == vb
            else:
                ok = type(ra) is type(va) and type(rb) is type(vb) and ra == va and rb == vb
            if not ok:
                rec.violation(f"identity:{kind}:wrong-class-or-value", dict(det, document=common.short(doc), observed=common.short(back), expected=common.short(h)), facts)
        walk_new_functions(rec, st, {"kind": kind})
        # static identity: a global that resolves to a class homonymous with, but not identical to, a schema class
        rec.nontrivial(("identity", kind, wrap, mixin))
        if rng.random() < 0.02:
            rec.sample({"monitor": "identity", "kind": kind, "wrap": wrap, "mixin": mixin})
    finally:
        fam.dispose()
        other.dispose()


# ------------------------------------------------------------------ (d) classes compared by identity in generated code
def passthrough_union_case(rng, tier, rec, st):
    """a Union member that is passed through is recognised in the generated code by `value.__class__ is <name>`: the
    name must be bound to the very class - also when the class's short name equals a module the namespace already
    holds (datetime.datetime), and when two members share their name (same-named classes of two modules)."""
    import datetime
    import decimal
    import uuid
    from mashumaro.codecs.basic import BasicEncoder
    rec.count("passthrough_union_cases")
    fam = Family("c17p", future_annotations=False)
    other = Family("c17q")
    kind = rng.choice(["stdlib_short_name_is_module", "two_modules"])
    facts = {"monitor": "identity", "kind": "passthrough_union:" + kind}
    try:
        mixin = rng.choice(["DataClassDictMixin", "DataClassORJSONMixin", "DataClassMessagePackMixin"])
        order = rng.random() < 0.5
        if kind == "stdlib_short_name_is_module":
            pt, conv, ptv, convv, convw = rng.choice([
                ("datetime.datetime", "decimal.Decimal", datetime.datetime(2024, 5, 6, 7, 8, 9), decimal.Decimal("1.5"), "1.5"),
                ("datetime.datetime", "uuid.UUID", datetime.datetime(2024, 5, 6, 7, 8, 9), uuid.UUID(int=5), str(uuid.UUID(int=5))),
                ("uuid.UUID", "datetime.date", uuid.UUID(int=7), datetime.date(2020, 1, 2), "2020-01-02"),
                ("datetime.date", "decimal.Decimal", datetime.date(2020, 1, 2), decimal.Decimal("2"), "2"),
            ])
            members = [pt, conv] if order else [conv, pt]
            strat = f"{{{pt}: pass_through}}"
            fam.exec_src(f"@dataclass\nclass H({mixin}):\n    a: Union[{', '.join(members)}]\n    b: List[Union[{', '.join(members)}]] = field(default_factory=list)\n"
                         f"    class Config(BaseConfig):\n        serialization_strategy = {strat}\n")
            cases = [(ptv, "identity", None), (convv, "value", convw)]
        else:
            other.exec_src("class Item:\n    def __init__(self, v):\n        self.v = v\n")
            fam.module.other = other.module
            fam.exec_src("class Item:\n    def __init__(self, v):\n        self.v = v\n")
            members = ["Item", "other.Item"] if order else ["other.Item", "Item"]
            fam.exec_src(f"@dataclass\nclass H({mixin}):\n    a: Union[{', '.join(members)}]\n    b: List[Union[{', '.join(members)}]] = field(default_factory=list)\n"
                         "    class Config(BaseConfig):\n        serialization_strategy = {Item: pass_through, other.Item: pass_through}\n")
            cases = [(fam.module.Item(1), "identity", None), (other.module.Item(2), "identity", None)]
        H = fam.module.H
        enc = BasicEncoder(H)
        src = "".join(fam.sources[1:]) + "".join(other.sources[1:])
        for v, how, wire in cases:
            for rname, fn in (("mixin", lambda o: o.to_dict()), ("codec", enc.encode)):
                rec.count("identity_checks")
                det = {"kind": kind, "route": rname, "source": src, "value": common.short(v)}
                try:
                    out = fn(H(v, [v]))
                except Exception as ex:
                    rec.violation(f"identity:passthrough_union:{kind}:exception:{type(ex).__name__}", dict(det, error=f"{type(ex).__name__}: {ex}"[:300]), dict(facts, exc=type(ex).__name__))
                    continue
                got = [out.get("a"), (out.get("b") or [None])[0]]
                ok = all(g is v for g in got) if how == "identity" else all(type(g) is type(wire) and g == wire for g in got)
                if not ok:
                    rec.violation(f"identity:passthrough_union:{kind}:member-not-recognised", dict(det, observed=common.short(out), expected="the very object" if how == "identity" else wire), facts)
        walk_new_functions(rec, st, {"kind": "passthrough_union"})
        rec.nontrivial(("passthrough_union", kind, mixin, order))
    finally:
        fam.dispose()
        other.dispose()


# ------------------------------------------------------------------ (e) first use from several threads
def threaded_first_use_case(rng, tier, rec, st, seed):
    """several lazily compiled holders share plain nested dataclasses and are used for the first time by several
    threads at once (yield injection at generated-code / library lines): no call may fail on valid data - in particular
    not with an AttributeError for a method that another thread is still building."""
    import sys
    import threading
    import time
    from . import c14
    fam = Family("c17t", future_annotations=False)
    try:
        nh = rng.randint(2, 4)
        src = "@dataclass\nclass Point:\n    x: int = 0\n    when: datetime.date = datetime.date(2000, 1, 1)\n@dataclass\nclass Seg:\n    a: Point = field(default_factory=Point)\n    b: Optional[Point] = None\n"
        for i in range(nh):
            lazy = "    class Config(BaseConfig):\n        lazy_compilation = True\n"
            src += f"@dataclass\nclass H{i}(DataClassDictMixin):\n    p: Point = field(default_factory=Point)\n    s: List[Seg] = field(default_factory=list)\n    later: Optional['Late'] = None\n{lazy}"
        src += "@dataclass\nclass Late:\n    p: Point = field(default_factory=Point)\n"
        fam.exec_src(src)
        m = fam.module
        doc = {"p": {"x": 1, "when": "2020-01-02"}, "s": [{"a": {"x": 2}, "b": {"x": 3}}], "later": {"p": {"x": 4}}}
        T = 6
        bar = threading.Barrier(T)
        errors = []
        lock = threading.Lock()

        def work(i):
            H = getattr(m, f"H{i % nh}")
            try:
                bar.wait(timeout=30)
            except Exception:
                return
            for _ in range(2):
                try:
                    r = H.from_dict(doc)
                    out = r.to_dict()
                    if out != {"p": {"x": 1, "when": "2020-01-02"}, "s": [{"a": {"x": 2, "when": "2000-01-01"}, "b": {"x": 3, "when": "2000-01-01"}}],
                               "later": {"p": {"x": 4, "when": "2000-01-01"}}}:
                        with lock:
                            errors.append(("wrong-result", repr(out)[:200]))
                except Exception as e:
                    with lock:
                        errors.append((type(e).__name__, f"{e}"[:200] + " <- " + type(e.__context__).__name__ if e.__context__ else f"{e}"[:200]))
        c14._Y.update(seq=[], rng=random.Random(seed), p=rng.choice([0.01, 0.03, 0.1]), budget=3000)
        old = sys.getswitchinterval()
        sys.setswitchinterval(1e-6)
        mon = sys.monitoring
        ts = [threading.Thread(target=work, args=(i,), daemon=True) for i in range(T)]
        mon.set_events(c14.YIELD_TOOL, mon.events.LINE)
        mon.restart_events()
        c14._Y["on"] = True
        for t in ts:
            t.start()
        for t in ts:
            t.join(timeout=60)
        c14._Y["on"] = False
        mon.set_events(c14.YIELD_TOOL, 0)
        sys.setswitchinterval(old)
        if any(t.is_alive() for t in ts):
            rec.count("thread_watchdog_inconclusive")
            return
        rec.count("threaded_first_use_families")
        rec.count("thread_handoffs", len(c14._Y["seq"]))
        for name, msg in errors:
            rec.violation(f"threads:first-use:{name}", {"source": src, "error": msg}, {"monitor": "threads", "exc": name})
        if not errors:
            rec.nontrivial(("threads", nh, len(c14._Y["seq"]) // 50))
        walk_new_functions(rec, st, {"kind": "threaded_first_use"})
    finally:
        fam.dispose()
