"""C18 - no hidden sharing or mutation."""
from __future__ import annotations

import collections
import dataclasses
import random
import types

from .. import tast
from ..family import Family
from ..gen import TypeGen
from ..monitors import containers
from ..ref import Ref, fingerprint
from ..values import Gen
from . import common

LEVEL = "exploration"
RULE = ("case = random family + type (no Any leaves) x no_copy set N (random subset of {list, dict, set, frozenset, deque, "
        "OrderedDict, defaultdict, Counter}, the empty set, and the format dialects' (list, dict)) x conforming values. "
        "Monitors: identity graph over mutable containers of the argument and of the result (BasicEncoder with "
        "default_dialect, mixin to_dict with Config.dialect / dialect=, to_jsonb/to_msgpack/to_toml trees through an identity "
        "encoder, and call histories mixing formats and dialects); deep structural snapshots of argument and input before / "
        "after. Oracle SHARE(S, N): a container is passed by reference iff its annotation origin is in N and its elements "
        "are conversion-free (basic scalars, Any, NewType/Optional/Union of those, by-reference containers); observed "
        "shared set must EQUAL the predicted set (extra sharing = missing copy, missing sharing = no-copy not honoured). "
        "Decode: result shares no container with the input (also containers of Any elements and bare list / dict, alone, Optional, as union members and as fields: the container itself is typed). distinct_nontrivial = distinct (type shape, N, value "
        "fingerprint) triples with at least one mutable container.")
RULE += " Additions: decode through the wrapper class and from_<format>(decoder=identity); pass_through inherited across three levels with a plain re-declaration in the middle."
ASSUMPTIONS = ["sharing is predicted from the annotation's origin, not the runtime class",
               "Any / pass_through positions are excluded (opaque)"]
BUDGET_S = {"quick": 150, "thorough": 1200}
MIN_EVENTS = {"quick": {"evaluations": 100000, "encode_share_agree": 80000, "containers_observed": 80000, "shared_containers_observed": 5000, "decode_no_share": 20000},
              "thorough": {"evaluations": 400000, "encode_share_agree": 300000, "containers_observed": 500000, "shared_containers_observed": 8000, "decode_no_share": 200000}}

CAND = ["list", "dict", "set", "frozenset", "collections.deque", "collections.OrderedDict", "collections.defaultdict", "collections.Counter"]
SEQ_ORIGIN = {"list": "list", "deque": "collections.deque", "set": "set", "frozenset": "frozenset"}


def n_cases(tier):
    return 10000 if tier == "quick" else 200000


def worker_setup(tier, rec):
    return common.install_monitors(rec)


def worker_finish(tier, rec, st):
    common.finish_monitors(rec, st)


def origin_of(t):
    """runtime origin class name of a container annotation."""
    k = t[0]
    if k == "seq":
        src, kind = tast.SEQ_SPELLINGS[t[1]]
        return {"List": "list", "list": "list", "Deque": "collections.deque", "collections.deque": "collections.deque",
                "Set": "set", "set": "set", "FrozenSet": "frozenset", "frozenset": "frozenset"}.get(src, src)
    if k == "map":
        src, kind = tast.MAP_SPELLINGS[t[1]]
        return {"Dict": "dict", "dict": "dict", "typing.OrderedDict": "collections.OrderedDict", "collections.OrderedDict": "collections.OrderedDict",
                "DefaultDict": "collections.defaultdict", "collections.defaultdict": "collections.defaultdict"}.get(src, src)
    if k == "counter":
        return "collections.Counter"
    return None


class Share:
    """SHARE(S, N): which containers of a value are passed by reference."""

    def __init__(self, fam, N, natives=()):
        self.fam = fam
        self.N = set(N)
        self.natives = set(natives)     # scalar kinds a format dialect declares as pass-through
        self.ref = Ref(fam)
        self.tv_bind = {}

    def ident(self, t):
        s = tast.strip(t)
        k = s[0]
        if k in ("int", "float", "bool", "str", "none", "any") or k in self.natives:
            return True
        if k == "opt":
            return self.ident(s[1])
        if k == "union":
            return all(self.ident(m) for m in s[1])
        if k == "tv":
            if s[1] in self.tv_bind:
                return self.ident(self.tv_bind[s[1]])
            df = self.fam.defs[s[1]]
            if df.get("constraints"):
                return all(self.ident(c) for c in df["constraints"])
            if df.get("bound") is not None:
                return self.ident(df["bound"])
            return True
        if k == "seq":
            return origin_of(s) in self.N and self.ident(s[2])
        if k == "map":
            return origin_of(s) in self.N and self.ident(s[2]) and self.ident(s[3])
        if k == "counter":
            return origin_of(s) in self.N and self.ident(s[2])
        return False

    def predict(self, t, v, out):
        if v is None:
            return
        s = tast.strip(t)
        k = s[0]
        if k in self.natives:
            if isinstance(v, MUT):      # e.g. a bytearray left as is by the msgpack dialect
                out.add(id(v))
            return
        if k == "boxed":
            # annotated strategies return the object's own list, packed as List[date]; the others build a new list
            if self.fam.defs[s[1]]["flavour"] in ("annotated", "annotated-sub"):
                self.predict(("seq", "List", ("date",)), v.items, out)
            return
        if k == "stype":
            # use_annotations=True: what _serialize() hands out is packed as the annotated wire type
            if self.fam.defs[s[1]]["flavour"] == "annotations-list":
                self.predict(("tuple", "Tuple", (("seq", "List", ("int",)), ("int",))), v._serialize(), out)
            return
        if k == "nt":
            for f, x in zip(self.fam.defs[s[1]]["fields"], v):
                self.predict(f["t"], x, out)
        elif k == "td":
            fields = {f["n"]: f for f in self.fam.defs[s[1]]["fields"]}
            for kk, x in v.items():
                self.predict(fields[kk]["t"], x, out)
        elif k == "dc":
            for f in self.fam.dc_fields(s[1]):
                self.predict(f["t"], getattr(v, f["n"]), out)
        elif k == "gdc":
            saved = dict(self.tv_bind)
            self.tv_bind.update(dict(zip(self.fam.defs[s[1]].get("generic", ()), s[2])))
            self.ref.tv_bind = dict(self.tv_bind)
            try:
                for f in self.fam.dc_fields(s[1]):
                    self.predict(f["t"], getattr(v, f["n"]), out)
            finally:
                self.tv_bind = saved
                self.ref.tv_bind = dict(saved)
        elif k == "tv":
            if s[1] in self.tv_bind:
                self.predict(self.tv_bind[s[1]], v, out)
            else:
                df = self.fam.defs[s[1]]
                if df.get("constraints"):
                    self.predict(("union", tuple(df["constraints"])), v, out)
                elif df.get("bound") is not None:
                    self.predict(df["bound"], v, out)
        elif k == "opt":
            self.predict(s[1], v, out)
        elif k == "union":
            m = self.ref.member_of(self.ref.union_members(s), v)
            if m is not None:
                self.predict(m, v, out)
        elif k == "seq":
            if self.ident(s):
                mark_all(v, out)
            else:
                for x in v:
                    self.predict(s[2], x, out)
        elif k == "vtuple":
            for x in v:
                self.predict(s[2], x, out)
        elif k == "tuple":
            for tt, x in zip(s[2], v):
                self.predict(tt, x, out)
        elif k == "utuple":
            pre, mid, post = s[2], s[3], s[4]
            n = len(v)
            for tt, x in zip(pre, v):
                self.predict(tt, x, out)
            self.predict(mid, tuple(v[len(pre): n - len(post)]), out)
            for tt, x in zip(post, v[n - len(post):] if post else ()):
                self.predict(tt, x, out)
        elif k == "chainmap":
            for m in v.maps:
                for x in m.values():
                    self.predict(s[3], x, out)
        elif k == "map":
            if self.ident(s):
                mark_all(v, out)
            else:
                for x in v.values():
                    self.predict(s[3], x, out)
        elif k == "counter":
            if self.ident(s):
                mark_all(v, out)


MUT = (list, dict, set, bytearray, collections.deque, collections.ChainMap)


def mark_all(v, out):
    if isinstance(v, MUT):
        out.add(id(v))
    if isinstance(v, (dict, types.MappingProxyType)):
        for x in v.values():
            mark_all(x, out)
    elif isinstance(v, (list, tuple, set, frozenset, collections.deque)):
        for x in v:
            mark_all(x, out)


ANY_CONTAINERS = [("List[Any]", lambda: [1, "a", None]), ("list", lambda: [1, 2]), ("Dict[str, Any]", lambda: {"a": 1, "b": "x"}),
                  ("dict", lambda: {"a": 1}), ("Dict[Any, Any]", lambda: {"a": 1, "b": None}), ("List[List[Any]]", lambda: [[1], [2, 3]]),
                  ("Dict[str, List[Any]]", lambda: {"k": [1, 2]}), ("Set[Any]", lambda: [1, 2]), ("Deque[Any]", lambda: [1, 2]),
                  ("Tuple[Any, ...]", lambda: [1, 2]), ("Sequence[Any]", lambda: [1]), ("Mapping[str, Any]", lambda: {"a": 1})]


def decode_any_containers(fam, rng, rec):
    """containers typed with Any elements (and bare list / dict): the elements are opaque, the CONTAINER is typed and must
    be rebuilt - on its own, as Optional, as a union member (in any position) and as a dataclass field."""
    from mashumaro.codecs.basic import BasicDecoder
    src, mk = rng.choice(ANY_CONTAINERS)
    others = rng.sample(["int", "str", "None", "float", "datetime.date"], rng.randint(1, 2))
    members = others + [src]
    rng.shuffle(members)
    shape = rng.choice(["{c}", "Optional[{c}]", "Union[{u}]", "Union[{u}]", "List[Union[{u}]]", "Dict[str, {c}]"]).format(c=src, u=", ".join(members))
    wrap = (lambda x: [x]) if shape.startswith("List[Union") else (lambda x: {"k": x}) if shape.startswith("Dict[str, ") and shape != src else (lambda x: x)
    ns = fam.module.__dict__
    try:
        T = eval(shape, ns)
        fam.exec_src(f"@dataclass\nclass AnyHolder(DataClassDictMixin):\n    x: {shape}\n")
        decs = [("codec", BasicDecoder(T).decode, lambda d: d), ("field", fam.module.AnyHolder.from_dict, lambda d: {"x": d})]
        # the same field behind a format mixin, fed with an already parsed document through the public decoder= keyword:
        # the caller keeps that document, so its containers are not the new object's
        ident = lambda d, **kw: d
        for mix, meth in rng.sample([("DataClassMessagePackMixin", "from_msgpack"), ("DataClassORJSONMixin", "from_json"), ("DataClassTOMLMixin", "from_toml")], 2):
            if meth == "from_toml" and "datetime.date" in shape:
                continue     # TOML passes dates through: a date member of the union accepts (and returns) any object, by design
            fam.exec_src(f"@dataclass\nclass AnyHolder_{meth}({mix}):\n    x: {shape}\n")
            decs.append((meth + "(decoder=identity)", (lambda d, m=getattr(getattr(fam.module, f"AnyHolder_{meth}"), meth): m(d, decoder=ident)), lambda d: {"x": d}))
    except Exception as e:
        rec.count("any_container_build_failed")
        return
    for rname, fn, put in decs:
        doc = put(wrap(mk()))
        rec.evaluation()
        snap = fingerprint(doc)
        b = containers(doc)
        try:
            r = fn(doc)
        except Exception:
            rec.count("decode_raised")
            continue
        if fingerprint(doc) != snap:
            rec.violation("decode:input-mutated", {"type": shape, "input": common.short(doc)}, {})
        sh = set(b) & set(containers(r))
        if sh:
            rec.violation("decode:result-shares-container-with-input", {"type": shape, "route": rname, "input": common.short(doc),
                          "shared": [type(b[k]).__name__ for k in sh]}, {"any_elements": True})
        else:
            rec.count("decode_no_share")
            rec.count("decode_no_share_any_elements")
            rec.nontrivial(("any-container", shape, rname))


def inherited_pass_through(fam, rng, rec):
    """a field option that waives the copy (pass_through) belongs to the declaration that carries it: a middle class that
    re-declares the member plainly makes it typed data again, for itself and for every class below that inherits it."""
    from mashumaro.codecs.basic import BasicDecoder, BasicEncoder
    ann, mk = rng.choice([("List[int]", lambda: [1, 2]), ("Dict[str, List[int]]", lambda: {"k": [1]}), ("List[List[str]]", lambda: [["a"]])])
    opt = rng.choice(["serialization_strategy=pass_through", "serialize=pass_through, deserialize=pass_through"])
    mixin = rng.random() < 0.6
    lazy = "    class Config(BaseConfig):\n        lazy_compilation = True\n" if rng.random() < 0.3 else ""
    src = (f"@dataclass\nclass G0{'(DataClassDictMixin)' if mixin else ''}:\n    x: {ann} = field(default_factory=list, metadata=field_options({opt}))\n    n: int = 0\n{lazy}"
           f"@dataclass\nclass G1(G0):\n    x: {ann} = field(default_factory={'dict' if ann.startswith('Dict') else 'list'})\n"
           f"@dataclass\nclass G2(G1):\n    m: int = 1\n" + (f"@dataclass\nclass G3(G2):\n    k: int = 2\n" if rng.random() < 0.5 else ""))
    try:
        fam.exec_src(src)
    except Exception as e:
        rec.violation(f"inherited-pass-through:build:{type(e).__name__}", {"source": src, "error": str(e)[:200]}, {"scenario": "inherited-pass-through"})
        return
    for cname, typed in (("G0", False), ("G1", True), ("G2", True), ("G3", True)):
        cls = getattr(fam.module, cname, None)
        if cls is None:
            continue
        v = cls(x=mk())
        enc = (lambda o: o.to_dict()) if mixin else BasicEncoder(cls).encode
        dec = cls.from_dict if mixin else BasicDecoder(cls).decode
        for direction, fn, arg in (("encode", enc, v), ("decode", dec, {"x": mk(), "n": 1})):
            rec.evaluation()
            a = containers(arg)
            try:
                out = fn(arg)
            except Exception as e:
                rec.violation(f"inherited-pass-through:{direction}:{type(e).__name__}", {"source": src, "class": cname, "error": str(e)[:200]}, {"scenario": "inherited-pass-through"})
                continue
            shared = set(a) & set(containers(out))
            if bool(shared) == (not typed):
                rec.count("inherited_pass_through_agree")
                rec.nontrivial(("inherited-pass-through", ann, opt, cname, direction, mixin))
            else:
                rec.violation(f"inherited-pass-through:{direction}:{'extra-sharing' if shared else 'missing-sharing'}",
                              {"source": src, "class": cname, "shared": [type(a[k]).__name__ for k in shared]}, {"scenario": "inherited-pass-through", "class": cname})


def run_case(seed, tier, rec, st):
    from mashumaro.codecs.basic import BasicDecoder, BasicEncoder
    rng = random.Random(seed)
    fam = Family("c18")
    try:
        if rng.random() < 0.08:
            decode_any_containers(fam, rng, rec)
            return
        if rng.random() < 0.04:
            inherited_pass_through(fam, rng, rec)
            return
        fmt = rng.choice([None, "orjson", "msgpack", "toml"])
        base = {None: "DataClassDictMixin", "orjson": "DataClassORJSONMixin", "msgpack": "DataClassMessagePackMixin", "toml": "DataClassTOMLMixin"}[fmt]
        # every generated dataclass opts in to dialects, so a call dialect governs the whole tree
        tg = TypeGen(fam, rng, allow_any=False, allow_literal=False, mixins=(base,),
                     dc_config_fn=lambda r: {"code_generation_options": "[ADD_DIALECT_SUPPORT]"})
        tg.allow_self = False
        # frozen=True only forbids re-binding the attributes: the containers an instance holds stay mutable and are copied
        # like anyone else's.  Every class of the case is frozen (a frozen class cannot mix with ordinary ones in one hierarchy)
        frozen = rng.random() < 0.15
        if frozen:
            fam.default_dc_args = {"frozen": True}
        x = rng.random()
        if x < 0.25:
            N = []
        elif x < 0.45:
            N = ["list", "dict"]
        else:
            N = [c for c in CAND if rng.random() < 0.4]
        fam.exec_src("class DN(Dialect):\n    no_copy_collections = (" + "".join(c + ", " for c in N) + ")\n")
        DN = fam.module.DN
        t = tg.type(rng.randint(1, 2 if tier == "quick" else 3))
        # bias towards conversion-free containers, where sharing can actually happen
        if rng.random() < 0.5:
            t = rng.choice([
                ("seq", "List", rng.choice([("int",), ("str",), ("opt", ("str",), "Optional"), ("union", (("int",), ("str",)), "Union"), t])),
                ("map", "Dict", ("str",), rng.choice([("int",), ("seq", "List", ("int",)), ("opt", ("int",), "Optional"), t])),
                ("map", "dict", rng.choice([("date",), ("str",), ("uuid",), tg.enum("Enum")]), ("int",)),
                ("seq", "Deque", ("int",)), ("seq", "Set", ("str",)), ("map", "OrderedDict", ("str",), ("float",)),
                ("map", "DefaultDict", ("str",), ("seq", "list", ("str",))), ("counter", "Counter", ("str",)),
                ("tuple", "Tuple", (("seq", "List", ("int",)), ("map", "Dict", ("str",), ("str",)))),
                ("opt", ("seq", "List", ("seq", "list", ("int",))), "Optional"),
                ("union", (("seq", "List", ("int",)), ("str",)), "Union"),
            ])
        share = Share(fam, N)
        tt = common.eval_type(fam, t)
        try:
            enc = BasicEncoder(tt, default_dialect=DN)
            dec = BasicDecoder(tt)
            enc0 = BasicEncoder(tt)
            enc_pe = BasicEncoder(tt, post_encoder_func=lambda d: d)      # a hook that keeps what it is given
        except Exception as e:
            rec.violation(f"codec-build:{type(e).__name__}", {"type": tast.render(t), "N": N, "error": str(e)[:300]}, {"stage": "build"})
            return
        # dataclass wrappers: Config.dialect, call dialect, format mixins
        wname = tg.fresh("W")
        wshape = rng.choice(["plain", "plain", "slots", "lazy", "child"])
        wcfg = {"code_generation_options": "[ADD_DIALECT_SUPPORT]"}
        wd = {"k": "dc", "name": wname, "bases": [], "mixin": base, "fields": [{"n": "x", "t": t}], "config": wcfg}
        if wshape == "slots":
            wd["dc_args"] = dict({"slots": True}, **({"frozen": True} if frozen else {}))
        elif wshape == "lazy":
            wcfg["lazy_compilation"] = "True"
        elif wshape == "child":
            # the member is declared by a parent, the wrapper only inherits it
            pname = tg.fresh("WP")
            fam.add(dict(wd, name=pname, config=dict(wcfg)), tg.value_maker)
            wd = {"k": "dc", "name": wname, "bases": [pname], "mixin": None, "fields": [], "config": wcfg}
        fam.add(wd, tg.value_maker)
        W = fam.get(wname)
        vg = Gen(fam, rng)
        nvals = 5 if tier == "quick" else 8
        meth = {"orjson": "to_jsonb", "msgpack": "to_msgpack", "toml": "to_toml"}.get(fmt)
        ident = lambda d, **kw: d
        from ..ref import ORJSON_NATIVES, MSGPACK_NATIVES, TOML_NATIVES
        natives = {"orjson": ORJSON_NATIVES, "msgpack": MSGPACK_NATIVES, "toml": TOML_NATIVES}.get(fmt, ())
        fmt_share = Share(fam, ["list", "dict"], natives)
        for j in range(nvals):
            v = vg.value(t, 3)
            observations = [("codec+dialect", lambda: enc.encode(v), v, share), ("codec-default", lambda: enc0.encode(v), v, Share(fam, [])),
                            ("codec-default+post_encoder", lambda: enc_pe.encode(v), v, Share(fam, []))]
            w = W(v)
            hist = [("to_dict", lambda: w.to_dict(), w, Share(fam, [])), ("to_dict(dialect=DN)", lambda: w.to_dict(dialect=DN), w, share)]
            if meth:
                # the real encoder of the format: only "the object is as it was" can be observed (the output is text/bytes)
                hist.append((f"{meth}-real", lambda: (getattr(w, meth)(), None)[1], w, None))
                hist.append((f"{meth}-tree", lambda: getattr(w, meth)(encoder=ident), w, fmt_share))
                hist.append((f"{meth}-tree(dialect=DN)", lambda: getattr(w, meth)(encoder=ident, dialect=DN), w, Share(fam, N, natives)))
            rng.shuffle(hist)      # call history: formats and dialects in random order on the same class
            observations += hist
            order = [o[0] for o in observations]
            for name, fn, arg, model in observations:
                rec.evaluation()
                snap = fingerprint(arg)
                a = containers(arg)
                raised = None
                try:
                    out = fn()
                except Exception as ex:
                    rec.count("encode_raised")
                    raised = type(ex).__name__
                if fingerprint(arg) != snap:
                    # also when the call failed (a value the format cannot carry): the object is still as it was
                    rec.violation(f"{name.split('(')[0]}:argument-mutated", {"type": tast.render(t), "value_before": common.short(snap, 300), "value_after": common.short(arg, 300),
                                                                                "raised": raised, "family": fam.to_json()}, {"N": N, "route": name, "format": fmt})
                    continue
                if raised is not None:
                    continue
                if model is None:
                    rec.count("real_format_encoder_left_the_object_alone")
                    continue
                b = containers(out)
                shared = set(a) & set(b)
                exp = set()
                model.predict(("dc", wname) if arg is w else t, arg, exp)
                exp &= set(a)
                rec.count("containers_observed", len(a))
                rec.count("shared_containers_observed", len(shared))
                if shared == exp:
                    rec.count("encode_share_agree")
                    if a:
                        rec.nontrivial((tast.shape_hash(t), tuple(N), repr(snap)[:150], name))
                else:
                    extra = [type(a[k]).__name__ for k in shared - exp]
                    missing = [type(a[k]).__name__ for k in exp - shared]
                    kind = "extra-sharing" if extra else "missing-sharing"
                    rec.violation(f"{name.split('-tree')[0] if 'tree' in name else name}:{kind}",
                                  {"type": tast.render(t), "N": sorted(model.N), "value": common.short(arg, 300), "result": common.short(out, 300),
                                   "extra_shared": extra, "not_shared_but_predicted": missing, "call_order": order, "family": fam.to_json()},
                                  {"N": sorted(model.N), "kind": kind, "route": name, "format": fmt, "frozen": frozen, "wrapper": wshape,
                                   "union_copy_shortcut": common.union_copy_fact(fam, t),
                                   "encoded_only_basic": __import__("vfw.ref", fromlist=["only_basic"]).only_basic(out)})
            # ---- decode: result shares nothing with the input, input unchanged
            try:
                doc = enc0.encode(v)
            except Exception:
                continue
            rec.evaluation()
            snap = fingerprint(doc)
            b = containers(doc)
            try:
                r = dec.decode(doc)
            except Exception:
                rec.count("decode_raised")
                continue
            if fingerprint(doc) != snap:
                rec.violation("decode:input-mutated", {"type": tast.render(t), "input": common.short(doc)}, {})
            c = containers(r)
            sh = set(b) & set(c)
            if sh:
                rec.violation("decode:result-shares-container-with-input", {"type": tast.render(t), "input": common.short(doc), "shared": [type(b[k]).__name__ for k in sh]}, {})
            else:
                rec.count("decode_no_share")
            # the wrapper class: from_dict, and the format method fed with a pre-parsed document (decoder=identity)
            import copy
            wroutes = [("W.from_dict", lambda: {"x": copy.deepcopy(doc)}, W.from_dict)]
            if meth:
                fmeth = getattr(W, {"to_jsonb": "from_json", "to_msgpack": "from_msgpack", "to_toml": "from_toml"}[meth])
                wroutes.append((fmeth.__name__ + "(decoder=identity)", lambda: copy.deepcopy(getattr(w, meth)(encoder=ident)), lambda d: fmeth(d, decoder=ident)))
            for rname, mkdoc, fn in wroutes:
                try:
                    wdoc = mkdoc()
                    wb = containers(wdoc)
                    wsnap = fingerprint(wdoc)
                    wr = fn(wdoc)
                except Exception:
                    rec.count("decode_raised")
                    continue
                rec.evaluation()
                if fingerprint(wdoc) != wsnap:
                    rec.violation("decode:input-mutated", {"type": tast.render(t), "route": rname, "input": common.short(wdoc)}, {})
                wsh = set(wb) & set(containers(wr))
                if wsh:
                    rec.violation("decode:result-shares-container-with-input", {"type": tast.render(t), "route": rname, "input": common.short(wdoc),
                                  "shared": [type(wb[k]).__name__ for k in wsh], "family": fam.to_json()}, {"route": rname})
                else:
                    rec.count("decode_no_share")
                    rec.count("decode_no_share_wrapper_routes")
            if j == 0:
                rec.sample({"type": tast.render(t), "no_copy": N, "value": common.short(v, 120), "format": fmt, "call_order": order})
    finally:
        fam.dispose()
