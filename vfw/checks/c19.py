"""C19 - hooks run exactly once per instance, in order, through every entry point."""
from __future__ import annotations

import dataclasses
import random

from ..family import Family
from . import common

LEVEL = "exploration"
RULE = ("case = random hook-instrumented class family: 3-6 dataclasses (mixin of a random format or plain) wired into a tree "
        "through direct, Optional, List, Dict, Tuple and Union fields, self references by forward reference and Self, an "
        "optional hook-less intermediate class, optional ADD_SERIALIZATION_CONTEXT; every hook appends (kind, class, id(obj), "
        "context id) to a trace and wraps/replaces its argument in some families. Values are random trees. For every entry "
        "point (mixin to_dict / to_<format>, the five codec families, codecs for List[Root] and Dict[str, Root]) the recorded "
        "serialize trace must equal the pre/post-order traversal of the dataclass instances of the value (pre before the "
        "fields, post after, each exactly once), the post_deserialize trace the post-order of the result, pre_deserialize "
        "must run before the fields are read (it removes a poisoned key), hook return values must be used, and the context "
        "object must be the same at every opted-in node. First calls on fresh families are included (lazy / forward "
        "references). distinct_nontrivial = distinct (family shape, entry point, value shape) triples.")
RULE += " Additions: hooks on the base of a class-level discriminator; subclasses adding nothing but hooks."
ASSUMPTIONS = ["traces are recorded by the generated user hooks themselves; ids are compared while the objects are alive"]
BUDGET_S = {"quick": 180, "thorough": 1500}
MIN_EVENTS = {"quick": {"evaluations": 6000, "ser_trace_agree": 3000, "de_trace_agree": 2500, "hook_events": 60000, "context_nodes_checked": 3000},
              "thorough": {"evaluations": 200000, "ser_trace_agree": 100000, "de_trace_agree": 80000, "hook_events": 2000000, "context_nodes_checked": 100000}}

LOG = []


def n_cases(tier):
    return 1500 if tier == "quick" else 40000


def worker_setup(tier, rec):
    return common.install_monitors(rec)


def worker_finish(tier, rec, st):
    common.finish_monitors(rec, st)


BASES = {"dict": "DataClassDictMixin", "plain": "", "orjson": "DataClassORJSONMixin", "msgpack": "DataClassMessagePackMixin",
         "json": "DataClassJSONMixin", "yaml": "DataClassYAMLMixin"}


ALL_HOOKS = ("pre_ser", "post_ser", "pre_de", "post_de")


def hooks_src(name, ctx, poison, wrap_post, which=ALL_HOOKS):
    cargs = ", context=None" if ctx else ""
    clog = ", id(context) if context is not None else None" if ctx else ", 'noctx'"
    lines = []
    if "pre_ser" in which:
        lines += [f"    def __pre_serialize__(self{cargs}):",
                  f"        LOG.append(('pre_ser', '{name}', id(self){clog}))",
                  "        return self"]
    if "post_ser" in which:
        lines += [f"    def __post_serialize__(self, d{cargs}):",
                  f"        LOG.append(('post_ser', '{name}', id(self){clog}))"]
        if wrap_post:
            lines.append(f"        d = dict(d); d['_by'] = '{name}'")
        lines.append("        return d")
    if "pre_de" in which:
        lines += ["    @classmethod", "    def __pre_deserialize__(cls, d):",
                  f"        LOG.append(('pre_de', '{name}', None, None))"]
        if poison or wrap_post:
            lines.append("        d = {k: v for k, v in d.items() if k not in ('_poison', '_by')}")
        lines.append("        return d")
    if "post_de" in which:
        lines += ["    @classmethod", "    def __post_deserialize__(cls, obj):",
                  f"        LOG.append(('post_de', '{name}', id(obj), None))", "        return obj"]
    return "\n".join(lines) + "\n"


def gen_family(rng):
    ctx = rng.random() < 0.45
    base_key = rng.choice(list(BASES))
    base = BASES[base_key]
    lazy = rng.random() < 0.15
    n = rng.randint(3, 6)
    names = [f"K{i}" for i in range(n)]
    hookless = rng.choice(names[1:-1]) if (n >= 3 and rng.random() < 0.4) else None
    poison = rng.random() < 0.4
    wrap_post = rng.random() < 0.3
    cfg_lines = []
    if ctx:
        cfg_lines.append("code_generation_options = [ADD_SERIALIZATION_CONTEXT]")
    if lazy:
        cfg_lines.append("lazy_compilation = True")
    if rng.random() < 0.3:
        # the keys __pre_deserialize__ removes ('_poison', '_by') are never seen by the extra-keys check
        cfg_lines.append("forbid_extra_keys = True")
    cfg = ("    class Config(BaseConfig):\n" + "".join(f"        {l}\n" for l in cfg_lines)) if cfg_lines else ""
    classes = {}
    # leaf-first definition; K0 is the root and refers to later classes
    for i in reversed(range(n)):
        name = names[i]
        fields = [f"    v{i}: int"]     # required and unique per class: union members stay distinguishable on the wire
        kids = names[i + 1:]
        spec = []
        for j, kid in enumerate(rng.sample(kids, min(len(kids), rng.randint(1, 3)))) if kids else []:
            shape = rng.choice(["direct", "opt", "list", "dict", "tuple", "union", "union_none"])
            fname = f"f{i}_{j}"
            if shape == "direct":
                fields.append(f"    {fname}: {kid} = field(default_factory=lambda: {kid}(0))")
            elif shape == "opt":
                fields.append(f"    {fname}: Optional[{kid}] = None")
            elif shape == "list":
                fields.append(f"    {fname}: List[{kid}] = field(default_factory=list)")
            elif shape == "dict":
                fields.append(f"    {fname}: Dict[str, {kid}] = field(default_factory=dict)")
            elif shape == "tuple":
                fields.append(f"    {fname}: Tuple[{kid}, ...] = ()")
            elif shape == "union":
                other = rng.choice(kids)
                fields.append(f"    {fname}: Union[{kid}, {other}, int] = 0" if other != kid else f"    {fname}: Union[{kid}, int] = 0")
                spec.append((fname, "union", [kid, other]))
                continue
            else:
                fields.append(f"    {fname}: Union[{kid}, None, str] = None")
                spec.append((fname, "union", [kid]))
                continue
            spec.append((fname, shape, [kid]))
        if rng.random() < 0.35:
            selfshape = rng.choice(["fwd_opt", "fwd_list", "self_opt"])
            if selfshape == "fwd_opt":
                fields.append(f"    me{i}: Optional['{name}'] = None")
                spec.append((f"me{i}", "opt", [name]))
            elif selfshape == "fwd_list":
                fields.append(f"    me{i}: List['{name}'] = field(default_factory=list)")
                spec.append((f"me{i}", "list", [name]))
            else:
                fields.append(f"    me{i}: Optional[Self] = None")
                spec.append((f"me{i}", "opt", [name]))
        # which hooks the class declares: all four, or a subset (e.g. a post hook without its pre hook); the
        # key-removing / key-adding variants need both ends, so they keep all four
        which = ALL_HOOKS if (poison or wrap_post or rng.random() < 0.5) else tuple(
            h for h in ALL_HOOKS if h in rng.choice([("post_ser", "pre_de", "post_de"), ("pre_ser", "pre_de", "post_de"), ("post_ser", "post_de"),
                                                     ("pre_ser", "post_ser"), ("pre_de", "post_de"), ("post_ser",), ("post_de",)]))
        if name == hookless:
            which = ()
        if which and rng.random() < 0.2:
            # diamond: the hooks are declared on the LATER of two branches that share a (hook-less) base
            b = f"({base})" if base else ""
            src = (f"@dataclass\nclass Base_{name}{b}:\n    pass\n"
                   f"@dataclass\nclass Own_{name}(Base_{name}):\n" + "\n".join(fields) + "\n"
                   f"@dataclass\nclass Aud_{name}(Base_{name}):\n" + hooks_src(name, ctx, poison, wrap_post, which)
                   + f"@dataclass\nclass {name}(Own_{name}, Aud_{name}):\n" + (cfg or "    pass\n"))
        else:
            src = "@dataclass\nclass " + name + (f"({base})" if base else "") + ":\n" + "\n".join(fields) + "\n" + cfg
            src += hooks_src(name, ctx, poison, wrap_post, which)
        classes[name] = {"src": src, "spec": spec, "hooks": bool(which), "which": which, "vfield": f"v{i}"}
    return {"ctx": ctx, "base_key": base_key, "names": names, "classes": classes, "poison": poison, "wrap_post": wrap_post, "hookless": hookless, "lazy": lazy}


def gen_value(mod, famd, rng, name, depth):
    cls = getattr(mod, name)
    kw = {famd["classes"][name]["vfield"]: rng.randint(0, 99)}
    for fname, shape, kids in famd["classes"][name]["spec"]:
        if depth <= 0:
            continue
        kid = rng.choice(kids)
        mk = lambda: gen_value(mod, famd, rng, kid, depth - 1)
        if shape == "direct":
            kw[fname] = mk()
        elif shape == "opt":
            kw[fname] = mk() if rng.random() < 0.6 else None
        elif shape == "list":
            kw[fname] = [mk() for _ in range(rng.randint(0, 2))]
        elif shape == "dict":
            kw[fname] = {k: mk() for k in "ab"[:rng.randint(0, 2)]}
        elif shape == "tuple":
            kw[fname] = tuple(mk() for _ in range(rng.randint(0, 2)))
        elif shape == "union":
            if rng.random() < 0.7:
                kw[fname] = mk()
    return cls(**kw)


def walk(x, out, hooked, order):
    """expected trace: pre(x), children in field order, post(x); order='ser' or 'post_de'."""
    if dataclasses.is_dataclass(x) and not isinstance(x, type):
        name = type(x).__name__
        which = hooked.get(name, ())
        if order == "ser" and "pre_ser" in which:
            out.append(("pre_ser", name, id(x)))
        if order == "pre_de" and "pre_de" in which:
            out.append(("pre_de", name, None))
        for f in dataclasses.fields(x):
            walk(getattr(x, f.name), out, hooked, order)
        if order == "ser" and "post_ser" in which:
            out.append(("post_ser", name, id(x)))
        if order == "post_de" and "post_de" in which:
            out.append(("post_de", name, id(x)))
    elif isinstance(x, (list, tuple)):
        for i in x:
            walk(i, out, hooked, order)
    elif isinstance(x, dict):
        for i in x.values():
            walk(i, out, hooked, order)


HOOKS4 = """    def __pre_serialize__(self):
        LOG.append(('pre_ser', type(self).__name__, id(self)))
        return self
    def __post_serialize__(self, d):
        LOG.append(('post_ser', type(self).__name__, id(self)))
        return d
    @classmethod
    def __pre_deserialize__(cls, d):
        LOG.append(('pre_de', cls.__name__, None))
        return d
    @classmethod
    def __post_deserialize__(cls, obj):
        LOG.append(('post_de', type(obj).__name__, id(obj)))
        return obj
"""


def _recursive_alias_context_case(rng, rec, fam, mixkey, mixin, lazy, facts):
    """(C) a context argument reaches every opted-in instance below a RECURSIVE alias (type Tree = Leaf | list[Tree] | ...), at
    every depth, unchanged (the same object), once per hook."""
    import msgpack
    from mashumaro.codecs.basic import BasicEncoder
    cfg = "    class Config(BaseConfig):\n        code_generation_options = [ADD_SERIALIZATION_CONTEXT]\n" + lazy
    shape = rng.choice(["list[Tree]", "dict[str, Tree]", "list[Tree] | dict[str, Tree]"])
    src = (f"@dataclass\nclass Leaf({mixin}):\n    n: int = 0\n" + cfg +
           "    def __pre_serialize__(self, context=None):\n        LOG.append(('pre_ser', 'Leaf', id(self), id(context) if context is not None else None))\n        return self\n"
           "    def __post_serialize__(self, d, context=None):\n        LOG.append(('post_ser', 'Leaf', id(self), id(context) if context is not None else None))\n        return d\n"
           f"type Tree = Leaf | {shape}\n"
           f"@dataclass\nclass Forest({mixin}):\n    t: Tree\n    ts: list[Tree] = field(default_factory=list)\n" + cfg)
    fam.exec_src(src)
    m = fam.module
    leaves = []

    def tree(d):
        if d == 0 or rng.random() < 0.3:
            leaves.append(m.Leaf(len(leaves)))
            return leaves[-1]
        if "list" in shape and ("dict" not in shape or rng.random() < 0.5):
            return [tree(d - 1) for _ in range(rng.randint(1, 3))]
        return {f"k{i}": tree(d - 1) for i in range(rng.randint(1, 2))}
    v = m.Forest(tree(rng.randint(1, 4)), [tree(rng.randint(0, 3)) for _ in range(rng.randint(0, 2))])
    ctx = {"marker": object()}
    routes = [("to_dict", lambda: v.to_dict(context=ctx))]
    if mixkey == "msgpack":
        routes.append(("to_msgpack", lambda: v.to_msgpack(context=ctx)))
    if mixkey == "orjson":
        routes.append(("to_jsonb", lambda: v.to_jsonb(context=ctx)))
    for label, fn in routes:
        rec.evaluation()
        LOG.clear()
        try:
            fn()
        except Exception as e:
            rec.violation(f"special:C:{label}:exception:{type(e).__name__}", {"error": f"{type(e).__name__}: {e}"[:300], "source": src, "value": common.short(v, 300)}, facts)
            continue
        bad = []
        for lf in leaves:
            for kind in ("pre_ser", "post_ser"):
                seen = [e[3] for e in LOG if e[0] == kind and e[2] == id(lf)]
                if seen != [id(ctx)]:
                    bad.append((lf.n, kind, "no context" if seen == [None] else f"{len(seen)} calls"))
        if bad:
            rec.violation(f"special:C:{label}:context-did-not-reach-an-instance-below-a-recursive-alias",
                          {"problems": bad[:6], "value": common.short(v, 300), "source": src}, dict(facts, kind="context"))
        else:
            rec.count("special_hook_counts_ok")
            rec.count("context_below_recursive_alias_ok", len(leaves))
            rec.nontrivial(("special-hooks", "C", mixkey, label, shape, common.short(v, 120)))


def _falsy_instance_case(rng, rec, fam, mixkey, mixin, lazy, facts):
    """(D) the return value of __pre_serialize__ is what gets serialized and what __post_serialize__ runs on - also when the
    returned object is FALSY (a container-like dataclass that is empty, one that defines __bool__)."""
    from mashumaro.codecs.basic import BasicEncoder
    falsy = rng.choice(["__len__", "__bool__"])
    src = (f"@dataclass\nclass Basket({mixin}):\n    items: List[int] = field(default_factory=list)\n    note: str = ''\n" +
           ("    class Config(BaseConfig):\n" + lazy if lazy else "") +
           ("    def __len__(self):\n        return len(self.items)\n" if falsy == "__len__" else "    def __bool__(self):\n        return bool(self.items)\n") +
           "    def __pre_serialize__(self):\n        new = dataclasses.replace(self, note='stamped')\n        LOG.append(('pre_ser', id(self), id(new)))\n        KEEP.append(new)\n        return new\n"
           "    def __post_serialize__(self, d):\n        LOG.append(('post_ser', id(self), None))\n        return d\n"
           f"@dataclass\nclass Cart({mixin}):\n    b: Basket\n    bs: List[Basket] = field(default_factory=list)\n    ob: Optional[Basket] = None\n")
    fam.module.KEEP = []
    fam.module.dataclasses = __import__("dataclasses")
    fam.exec_src(src)
    m = fam.module

    def basket():
        return m.Basket([1] if rng.random() < 0.4 else [])
    v = m.Cart(basket(), [basket() for _ in range(rng.randint(0, 3))], basket() if rng.random() < 0.5 else None)
    routes = [("to_dict", lambda: v.to_dict()), ("codec", lambda: BasicEncoder(m.Cart).encode(v)), ("root", lambda: {"b": v.b.to_dict(), "bs": [x.to_dict() for x in v.bs],
                                                                                                                     "ob": None if v.ob is None else v.ob.to_dict()})]
    for label, fn in routes:
        rec.evaluation()
        LOG.clear()
        del m.KEEP[:]
        try:
            out = fn()
        except Exception as e:
            rec.violation(f"special:D:{label}:exception:{type(e).__name__}", {"error": f"{type(e).__name__}: {e}"[:300], "source": src}, facts)
            continue
        docs = [out["b"]] + list(out["bs"]) + ([out["ob"]] if out.get("ob") is not None else [])
        returned = {e[2] for e in LOG if e[0] == "pre_ser"}
        post_on = [e[1] for e in LOG if e[0] == "post_ser"]
        problems = []
        if any(d.get("note") != "stamped" for d in docs):
            problems.append("the object returned by __pre_serialize__ was not the one serialized")
        if sorted(post_on) != sorted(returned):
            problems.append("__post_serialize__ did not run on the returned objects")
        if problems:
            rec.violation(f"special:D:{label}:return-value-of-pre-serialize-not-used", {"problems": problems, "result": common.short(out, 300), "value": common.short(v, 300), "source": src},
                          dict(facts, kind="return-value", falsy=falsy))
        else:
            rec.count("special_hook_counts_ok")
            rec.nontrivial(("special-hooks", "D", mixkey, label, falsy, common.short(v, 100)))


def _fieldless_case(rng, rec, fam, mixkey, mixin, lazy, facts, expect_once, count):
    """(E) classes without constructor parameters (tag-only variants, markers, all members init=False) still run their hooks."""
    from mashumaro.codecs.basic import BasicDecoder, BasicEncoder
    kind = rng.choice(["marker", "variants", "init_false"])
    forbid = "        forbid_extra_keys = True\n" if rng.random() < 0.3 else ""
    cfg = ("    class Config(BaseConfig):\n" + lazy + forbid) if (lazy or forbid) else ""
    if kind == "marker":
        src = f"@dataclass\nclass Ping({mixin}):\n" + (cfg or "") + HOOKS4
        doc = {}
    elif kind == "init_false":
        src = f"@dataclass\nclass Ping({mixin}):\n    seen: int = field(default=0, init=False)\n    K: ClassVar[int] = 1\n" + (cfg or "") + HOOKS4
        doc = {}
    else:
        src = (f"@dataclass\nclass Msg({mixin}):\n    class Config(BaseConfig):\n        discriminator = Discriminator(field='type', include_subtypes=True)\n{lazy}" + HOOKS4 +
               "@dataclass\nclass Ping(Msg):\n    type = 'ping'\n@dataclass\nclass Data(Msg):\n    type = 'data'\n    payload: int = 0\n")
        doc = {"type": "ping"}
    src += f"@dataclass\nclass Box({mixin}):\n    p: {'Msg' if kind == 'variants' else 'Ping'}\n    ps: List[{'Msg' if kind == 'variants' else 'Ping'}] = field(default_factory=list)\n"
    fam.exec_src(src)
    m = fam.module
    root = m.Msg if kind == "variants" else m.Ping
    x = m.Ping()
    steps = [("from_dict", lambda: [root.from_dict(dict(doc))], ("pre_de", "post_de")),
             ("direct.from_dict", lambda: [m.Ping.from_dict(dict(doc))], ("pre_de", "post_de")),
             ("codec-decode", lambda: [BasicDecoder(root).decode(dict(doc))], ("pre_de", "post_de")),
             ("holder", lambda: [m.Box.from_dict({"p": dict(doc)}).p], ("pre_de", "post_de")),
             ("holder-list", lambda: m.Box.from_dict({"p": dict(doc), "ps": [dict(doc), dict(doc)]}).ps, ("pre_de", "post_de")),
             ("to_dict", lambda: (x.to_dict(), [x])[1], ("pre_ser", "post_ser")),
             ("codec-encode", lambda: (BasicEncoder(m.Ping).encode(x), [x])[1], ("pre_ser", "post_ser")),
             ("holder.to_dict", lambda: (m.Box(x).to_dict(), [x])[1], ("pre_ser", "post_ser"))]
    rng.shuffle(steps)
    for label, fn, kinds in steps:
        LOG.clear()
        try:
            objs = fn()
        except Exception as e:
            rec.evaluation()
            rec.violation(f"special:E:{label}:exception:{type(e).__name__}", {"label": label, "error": f"{type(e).__name__}: {e}"[:200], "source": src}, facts)
            continue
        for o in objs:
            if type(o) is not m.Ping:
                rec.evaluation()
                rec.violation(f"special:E:{label}:wrong-class", {"label": label, "observed": repr(o)[:100], "source": src}, facts)
                continue
            expect_once(label + "|" + kind, kinds, o, src)


def special_hook_cases(rng, tier, rec):
    """(A) hooks declared on the base of a class-level discriminator: an instance obtained THROUGH the base still runs each
    hook once; (B) a subclass that adds nothing but hooks (no field, no Config) runs them through every entry point."""
    import msgpack
    from mashumaro.codecs.basic import BasicDecoder, BasicEncoder
    fam = Family("c19s", extra_ns={"LOG": LOG})
    try:
        which = rng.choice("ABCDE")
        mixkey = rng.choice(["dict", "msgpack", "orjson"])
        mixin = BASES[mixkey]
        lazy = "        lazy_compilation = True\n" if rng.random() < 0.2 else ""
        facts = {"scenario": "special-" + which, "mixin": mixkey}

        def count(kind, ident=None):
            return sum(1 for e in LOG if e[0] == kind and (ident is None or e[2] == ident))

        def expect_once(label, kinds, obj, src):
            rec.evaluation()
            bad = {k: count(k, id(obj) if k != "pre_de" else None) for k in kinds}
            # pre_deserialize carries no instance: at least once (rejected union candidates may add more), the others exactly once
            wrong = {k: n for k, n in bad.items() if (n < 1 if k == "pre_de" else n != 1)}
            if wrong:
                rec.violation(f"special:{which}:{label.split('|')[0]}:hook-count", {"label": label, "counts": bad, "trace": [list(map(str, e)) for e in LOG[:12]], "source": src},
                              dict(facts, kind="count"))
            else:
                rec.count("special_hook_counts_ok")
                rec.nontrivial(("special-hooks", which, mixkey, label))
        if which == "C":
            return _recursive_alias_context_case(rng, rec, fam, mixkey, mixin, lazy, facts)
        if which == "D":
            return _falsy_instance_case(rng, rec, fam, mixkey, mixin, lazy, facts)
        if which == "E":
            return _fieldless_case(rng, rec, fam, mixkey, mixin, lazy, facts, expect_once, count)
        if which == "A":
            src = (f"@dataclass\nclass EB({mixin}):\n    class Config(BaseConfig):\n        discriminator = Discriminator(field='kind', include_subtypes=True)\n{lazy}" + HOOKS4 +
                   "@dataclass\nclass E1(EB):\n    kind = 'one'\n    a: int = 0\n"
                   "@dataclass\nclass E2(E1):\n    kind = 'two'\n    b: int = 0\n"
                   f"@dataclass\nclass Hold({mixin}):\n    e: EB\n    es: List[EB] = field(default_factory=list)\n    m: Dict[str, EB] = field(default_factory=dict)\n    o: Optional[EB] = None\n")
            fam.exec_src(src)
            m = fam.module
            tag = rng.choice(["one", "two"])
            d = {"kind": tag, "a": 1}
            routes = [("base.from_dict", lambda: [m.EB.from_dict(dict(d))]),
                      ("holder-field", lambda: [m.Hold.from_dict({"e": dict(d)}).e]),
                      ("holder-list", lambda: m.Hold.from_dict({"e": dict(d), "es": [dict(d), dict(d)]}).es),
                      ("holder-dict", lambda: list(m.Hold.from_dict({"e": dict(d), "m": {"k": dict(d)}}).m.values())),
                      ("holder-optional", lambda: [m.Hold.from_dict({"e": dict(d), "o": dict(d)}).o]),
                      ("codec-list", lambda: BasicDecoder(eval("List[EB]", m.__dict__)).decode([dict(d)])),
                      ("variant.from_dict", lambda: [(m.E1 if tag == "one" else m.E2).from_dict(dict(d))])]
            if mixkey == "msgpack":
                routes.append(("base.from_msgpack", lambda: [m.EB.from_msgpack(msgpack.packb(d))]))
            rng.shuffle(routes)
            for label, fn in routes:
                LOG.clear()
                try:
                    objs = fn()
                except Exception as e:
                    rec.evaluation()
                    rec.violation(f"special:A:{label}:exception:{type(e).__name__}", {"label": label, "error": f"{type(e).__name__}: {e}"[:200], "source": src}, facts)
                    continue
                for o in objs:
                    expect_once(label + "|" + tag, ("pre_de", "post_de"), o, src)
        else:
            src = (f"@dataclass\nclass Ev({mixin}):\n    a: int = 0\n    when: Optional[datetime.date] = None\n"
                   + ("    class Config(BaseConfig):\n" + lazy if lazy else "") +
                   "@dataclass\nclass Aud(Ev):\n" + HOOKS4 +
                   "@dataclass\nclass Aud2(Aud):\n    pass\n")
            fam.exec_src(src)
            m = fam.module
            cls = rng.choice([m.Aud, m.Aud2])
            later_holder = rng.random() < 0.5
            x = cls(3)
            steps = [("to_dict", lambda: x.to_dict(), ("pre_ser", "post_ser"), lambda r: x),
                     ("from_dict", lambda: cls.from_dict({"a": 3}), ("pre_de", "post_de"), lambda r: r),
                     ("codec-encode", lambda: BasicEncoder(cls).encode(x), ("pre_ser", "post_ser"), lambda r: x),
                     ("codec-decode", lambda: BasicDecoder(cls).decode({"a": 3}), ("pre_de", "post_de"), lambda r: r)]
            if mixkey == "msgpack":
                steps += [("to_msgpack", lambda: x.to_msgpack(), ("pre_ser", "post_ser"), lambda r: x),
                          ("from_msgpack", lambda: cls.from_msgpack(msgpack.packb({"a": 3})), ("pre_de", "post_de"), lambda r: r)]
            if mixkey == "orjson":
                steps += [("to_jsonb", lambda: x.to_jsonb(), ("pre_ser", "post_ser"), lambda r: x),
                          ("from_json", lambda: cls.from_json(b'{"a": 3}'), ("pre_de", "post_de"), lambda r: r)]
            rng.shuffle(steps)
            for label, fn, kinds, who in steps:
                LOG.clear()
                try:
                    r = fn()
                except Exception as e:
                    rec.evaluation()
                    rec.violation(f"special:B:{label}:exception:{type(e).__name__}", {"label": label, "error": f"{type(e).__name__}: {e}"[:200], "source": src}, facts)
                    continue
                expect_once(label + "|" + cls.__name__, kinds, who(r), src)
                # an inherited class-method hook is called ON the class being deserialized (cls is that class, not the declaring one)
                wrong_cls = [e for e in LOG if e[0] == "pre_de" and e[1] != cls.__name__]
                if wrong_cls:
                    rec.violation(f"special:B:{label}:hook-bound-to-another-class", {"label": label, "class": cls.__name__, "trace": [list(map(str, e)) for e in LOG[:8]], "source": src},
                                  dict(facts, kind="binding"))
    finally:
        fam.dispose()
        LOG.clear()


def run_case(seed, tier, rec, st):
    from mashumaro.codecs.basic import BasicDecoder, BasicEncoder
    from mashumaro.codecs.json import JSONDecoder, JSONEncoder
    from mashumaro.codecs.orjson import ORJSONDecoder, ORJSONEncoder
    from mashumaro.codecs.msgpack import MessagePackDecoder, MessagePackEncoder
    from mashumaro.codecs.yaml import YAMLDecoder, YAMLEncoder
    rng = random.Random(seed)
    if rng.random() < 0.08:
        return special_hook_cases(rng, tier, rec)
    famd = gen_family(rng)
    fam = Family("c19", extra_ns={"LOG": LOG})
    try:
        src_all = ""
        for name in reversed(famd["names"]):
            src_all += famd["classes"][name]["src"]
        try:
            fam.exec_src(src_all)
        except Exception as e:
            rec.violation(f"family-build:{type(e).__name__}", {"source": src_all, "error": f"{type(e).__name__}: {e}"[:300]}, {"stage": "build"})
            return
        mod = fam.module
        root = famd["names"][0]
        Root = getattr(mod, root)
        hooked = {n: famd["classes"][n]["which"] for n in famd["names"] if famd["classes"][n]["hooks"]}
        ctxobj = {"c": seed}
        kw = {"context": ctxobj} if famd["ctx"] else {}
        entries = []
        bk = famd["base_key"]
        if bk != "plain":
            entries.append(("mixin.to_dict", lambda x: x.to_dict(**kw), lambda d: Root.from_dict(d), False))
            if bk == "orjson":
                entries.append(("mixin.to_jsonb", lambda x: x.to_jsonb(**kw), lambda d: Root.from_json(d), False))
            if bk == "msgpack":
                entries.append(("mixin.to_msgpack", lambda x: x.to_msgpack(**kw), lambda d: Root.from_msgpack(d), False))
            if bk == "json":
                entries.append(("mixin.to_json", lambda x: x.to_json(**kw), lambda d: Root.from_json(d), False))
            if bk == "yaml":
                entries.append(("mixin.to_yaml", lambda x: x.to_yaml(**kw), lambda d: Root.from_yaml(d), False))
        codecs = [("basic", BasicEncoder, BasicDecoder), ("json", JSONEncoder, JSONDecoder), ("orjson", ORJSONEncoder, ORJSONDecoder),
                  ("msgpack", MessagePackEncoder, MessagePackDecoder), ("yaml", YAMLEncoder, YAMLDecoder)]
        for nm, E, D in rng.sample(codecs, 3):
            try:
                e, d = E(Root), D(Root)
                entries.append((f"codec.{nm}", e.encode, d.decode, True))
                from typing import Dict, List
                e2, d2 = E(List[Root]), D(List[Root])
                entries.append((f"codec.list.{nm}", lambda x, e2=e2: e2.encode([x]), lambda doc, d2=d2: d2.decode(doc)[0], True))
                if nm == "basic":
                    e3, d3 = E(Dict[str, Root]), D(Dict[str, Root])
                    entries.append(("codec.dict.basic", lambda x, e3=e3: e3.encode({"k": x}), lambda doc, d3=d3: d3.decode(doc)["k"], True))
            except Exception as ex:
                rec.violation(f"codec-build:{nm}:{type(ex).__name__}", {"source": src_all, "error": str(ex)[:300]}, {"stage": "build"})
        rng.shuffle(entries)    # which entry point makes the FIRST call on the fresh family varies
        fshape = tuple((n, tuple(s[1] for s in famd["classes"][n]["spec"]), famd["classes"][n]["hooks"]) for n in famd["names"])
        exp = []
        for trial in range(3 if tier == "quick" else 6):
            x = gen_value(mod, famd, rng, root, 3)
            for ename, enc, dec, is_codec in entries:
                rec.evaluation()
                facts = {"entry": ename, "codec": is_codec, "ctx": famd["ctx"], "base": bk, "first_call": trial == 0,
                         "hookless_intermediate": famd["hookless"] is not None, "lazy": famd["lazy"]}
                det = {"source": src_all, "entry": ename, "value": common.short(x, 400)}
                LOG.clear()
                try:
                    doc = enc(x)
                except Exception as ex:
                    rec.violation(f"{ename.split('.')[0]}:encode-exception:{type(ex).__name__}", dict(det, error=f"{type(ex).__name__}: {ex}"[:300]), facts)
                    continue
                events = list(LOG)
                rec.count("hook_events", len(events))
                got = [e[:3] for e in events if e[0].endswith("_ser")]
                exp = []
                walk(x, exp, hooked, "ser")
                if got != exp:
                    from collections import Counter
                    extra = Counter((a, b) for a, b, c in got) - Counter((a, b) for a, b, c in exp)
                    missing = Counter((a, b) for a, b, c in exp) - Counter((a, b) for a, b, c in got)
                    kind = "count" if (extra or missing) else "order"
                    facts2 = dict(facts, kind=kind, union_member_speculation=bool(is_codec and extra and not missing and has_union(famd)))
                    rec.violation(f"{ename.split('.')[0]}:serialize-trace:{kind}", dict(det, extra={f"{a}:{b}": n for (a, b), n in extra.items()},
                                  missing={f"{a}:{b}": n for (a, b), n in missing.items()}, observed=got[:20], expected=exp[:20]), facts2)
                else:
                    rec.count("ser_trace_agree")
                # context identity at every opted-in node (codecs have no context argument)
                if famd["ctx"] and not is_codec:
                    ctxs = [e[3] for e in events if e[0].endswith("_ser")]
                    rec.count("context_nodes_checked", len(ctxs))
                    if any(c != id(ctxobj) for c in ctxs):
                        rec.violation(f"{ename.split('.')[0]}:context-not-forwarded", dict(det, contexts=[(e[0], e[1], e[3] == id(ctxobj)) for e in events if e[0].endswith('_ser')][:20]), facts)
                # ---- deserialize
                direct = ".list." not in ename and ".dict." not in ename
                if famd["wrap_post"] and direct and isinstance(doc, dict) and doc.get("_by") != root and root in hooked:
                    rec.violation(f"{ename.split('.')[0]}:post_serialize-return-value-ignored", dict(det, document=common.short(doc)), facts)
                d_in = doc
                if famd["poison"] and direct and isinstance(doc, dict) and root in hooked:
                    d_in = dict(doc, _poison=object())
                LOG.clear()
                try:
                    r = dec(d_in)
                except Exception as ex:
                    rec.violation(f"{ename.split('.')[0]}:decode-exception:{type(ex).__name__}", dict(det, error=f"{type(ex).__name__}: {ex}"[:300], document=common.short(doc)), facts)
                    continue
                events = list(LOG)
                rec.count("hook_events", len(events))
                got_post = [e[:3] for e in events if e[0] == "post_de"]
                exp_post = []
                walk(r, exp_post, hooked, "post_de")
                n_pre = sum(1 for e in events if e[0] == "pre_de")
                exp_pre = []
                walk(r, exp_pre, hooked, "pre_de")
                # pre_deserialize may additionally run for union candidates that are then rejected (the property pins
                # only its order); every instance of the result must have had it, which the poisoned key verifies
                if sorted(got_post) != sorted(exp_post) or n_pre < len(exp_pre):
                    from collections import Counter
                    extra = Counter((a, b) for a, b, c in got_post) - Counter((a, b) for a, b, c in exp_post)
                    missing = Counter((a, b) for a, b, c in exp_post) - Counter((a, b) for a, b, c in got_post)
                    facts2 = dict(facts, kind="count", union_member_speculation=bool(extra and not missing and has_union(famd)), pre_de=n_pre, instances=len(exp_post))
                    rec.violation(f"{ename.split('.')[0]}:deserialize-trace", dict(det, extra={f"{a}:{b}": n for (a, b), n in extra.items()},
                                  missing={f"{a}:{b}": n for (a, b), n in missing.items()}, pre_deserialize_calls=n_pre, instances=len(exp_post)), facts2)
                else:
                    rec.count("de_trace_agree")
                if r != x:
                    rec.violation(f"{ename.split('.')[0]}:roundtrip-differs", dict(det, decoded=common.short(r, 400)), facts)
                rec.nontrivial((fshape, ename, len(exp)))
            if trial == 0:
                rec.sample({"base": bk, "context": famd["ctx"], "entries": [e[0] for e in entries], "classes": famd["names"],
                            "hookless": famd["hookless"], "trace_len": len(exp)})
    finally:
        fam.dispose()


def has_union(famd):
    return any(s[1] == "union" for c in famd["classes"].values() for s in c["spec"])
