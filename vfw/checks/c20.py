"""C20 - schema generation is total, well formed and closed."""
from __future__ import annotations

import json
import random
import sys

from .. import tast
from ..family import Family
from ..gen import TypeGen
from . import common

LEVEL = "exploration"
RULE = ("case = random family + type from the schema-supported grammar (everything except re.Pattern), with dataclasses "
        "carrying a random Config (omit_none, omit_default, serialize_by_alias, aliases, sort_keys, lazy_compilation, "
        "Config.dialect with the same options, forbid_extra_keys), defaults and factories of every leaf type, jsonschema "
        "annotations with hashable and unhashable metadata, self- and mutually-referencing dataclasses; built with every "
        "(dialect, all_refs, ref_prefix with / without trailing slash, with_definitions, with_dialect_uri) variant through "
        "build_json_schema AND through sequences (<= 6) of JSONSchemaBuilder.build calls over a shared context (optionally with a one-shot build_json_schema(context=builder.context, all_refs=<opposite>) in between). Oracle: no "
        "exception (recursion limit 400, RecursionError is a violation); the document is valid against the Draft 2020-12 "
        "metaschema; every $ref starts with the effective prefix and names a key of the collected definitions; "
        "definitions accumulate monotonically and a class's definition is identical whichever build registered it; "
        "builder and one-shot call agree; JSONSchema.from_dict(d).to_dict() == d; the document is JSON-serialisable. "
        "distinct_nontrivial = distinct (type shape, config vector, build variant) triples.")
RULE += " Additions: plugin chains with refusing plugins in every order; field-level overrides on collections of composite elements; ancestors' schemas built first, compared with a fresh twin family."
ASSUMPTIONS = ["metaschema validity is decided by the jsonschema package (Draft202012Validator.check_schema)"]
BUDGET_S = {"quick": 180, "thorough": 1500}
MIN_EVENTS = {"quick": {"evaluations": 4000, "schemas_ok": 3000, "refs_checked": 1000, "builder_sequences": 400},
              "thorough": {"evaluations": 50000, "schemas_ok": 35000, "refs_checked": 10000, "builder_sequences": 4000}}
CASES_PER_PROCESS = {"quick": 400, "thorough": 250}      # schema building leaves large graphs behind


def n_cases(tier):
    return 800 if tier == "quick" else 8000


def worker_setup(tier, rec):
    st = common.install_monitors(rec)
    sys.setrecursionlimit(400)
    return st


def worker_finish(tier, rec, st):
    common.finish_monitors(rec, st)


def config_fn(rng):
    cfg = {}
    for o in ("omit_none", "omit_default", "serialize_by_alias", "sort_keys", "lazy_compilation", "forbid_extra_keys",
              "namedtuple_as_dict", "allow_deserialization_not_by_alias"):
        if rng.random() < 0.3:
            cfg[o] = "True"
    if rng.random() < 0.4:
        cfg["_aliases"] = True
    if rng.random() < 0.25:
        opts = ", ".join(f"'{k}': True" for k in ("omit_none", "omit_default", "serialize_by_alias") if rng.random() < 0.5)
        cfg["dialect"] = f"type('DD', (Dialect,), {{{opts}}})"
    return cfg


ANNOTATIONS = [
    ("int", "Minimum(1)"), ("int", "Maximum(10), MultipleOf(2)"), ("float", "ExclusiveMinimum(0.5)"), ("str", "MinLength(1), MaxLength(9)"),
    ("str", "Pattern('^a')"), ("List[int]", "MinItems(1), UniqueItems(True)"), ("List[int]", "Contains(JSONSchema(enum=[1, 2]))"),
    ("Dict[str, int]", "MaxProperties(3)"), ("Dict[str, int]", "DependentRequired({'a': {'b'}})"), ("int", "{'note': ['unhashable', 'metadata']}"),
    ("List[str]", "Contains(JSONSchema(const='x')), MinContains(1)"), ("str", "['plain', 'list']"),
]
ANN_IMPORT = ("from mashumaro.jsonschema.annotations import (Minimum, Maximum, ExclusiveMinimum, ExclusiveMaximum, MultipleOf, MinLength, "
              "MaxLength, Pattern, MinItems, MaxItems, UniqueItems, Contains, MinContains, MaxContains, MaxProperties, MinProperties, "
              "DependentRequired)\nfrom mashumaro.jsonschema.models import JSONSchema\n")


def collect_refs(d, out):
    if isinstance(d, dict):
        for k, v in d.items():
            if k == "$ref" and isinstance(v, str):
                out.append(v)
            else:
                collect_refs(v, out)
    elif isinstance(d, list):
        for v in d:
            collect_refs(v, out)


def rare_schema_case(rng, rec, fam):
    """supported but rarely used shapes: Final[...], LiteralString, dataclass(slots=True) with and without defaults, a serialize=
    function annotated to return a union."""
    from jsonschema import Draft202012Validator
    from mashumaro.jsonschema import build_json_schema
    slots = rng.random() < 0.6
    base = "(DataClassDictMixin)" if rng.random() < 0.4 and not slots else ""
    ret = rng.choice(["Optional[str]", "Union[int, str]", "Union[str, None, List[int]]", "Optional[List[Optional[str]]]"])
    src = ("from typing_extensions import LiteralString\n"
           f"def render(v) -> {ret}:\n    return None\n"
           f"@dataclass{'(slots=True)' if slots else ''}\nclass RS{base}:\n    req: int\n    fin: Final[int] = 1\n    ls: LiteralString = 'x'\n"
           "    fac: List[int] = field(default_factory=list)\n    od: Optional[datetime.date] = None\n"
           "    ov: datetime.date = field(default=datetime.date(2000, 1, 1), metadata=field_options(serialize=render))\n"
           "    fo: Final[Optional[str]] = None\n")
    try:
        fam.exec_src(src)
    except Exception as e:
        rec.count("rare_schema_class_rejected")
        return
    RS = fam.module.RS
    for all_refs in (False, True):
        rec.evaluation()
        facts = {"kind": "rare-schema", "slots": slots}
        try:
            s = build_json_schema(RS, all_refs=all_refs)
            sd = s.to_dict()
            json.dumps(sd)
            Draft202012Validator.check_schema(sd)
        except RecursionError:
            rec.violation("rare-schema:RecursionError", {"source": src, "all_refs": all_refs}, dict(facts, exc="RecursionError"))
            continue
        except Exception as e:
            rec.violation(f"rare-schema:{type(e).__name__}", {"source": src, "all_refs": all_refs, "error": f"{type(e).__name__}: {e}"[:300]}, dict(facts, exc=type(e).__name__))
            continue
        body = (sd.get("$defs") or {}).get("RS", sd) if all_refs else sd
        props = body.get("properties") or {}
        problems = []
        if (props.get("fin") or {}).get("type") != "integer" or (props.get("fin") or {}).get("default") != 1:
            problems.append(f"fin: {props.get('fin')!r}")
        if (props.get("ls") or {}).get("type") != "string":
            problems.append(f"ls: {props.get('ls')!r}")
        if "default" in (props.get("req") or {}) or "default" in (props.get("fac") or {}) or body.get("required") != ["req"]:
            problems.append(f"req / fac / required: {props.get('req')!r} {props.get('fac')!r} {body.get('required')!r}")
        if not (props.get("ov") or {}).get("anyOf"):
            problems.append(f"ov: {props.get('ov')!r}")
        if problems:
            rec.violation("rare-schema:wrong-description", {"source": src, "all_refs": all_refs, "problems": problems, "schema": common.short(sd, 600)}, facts)
        else:
            rec.count("schemas_ok")
            rec.count("rare_schemas_ok")
            rec.nontrivial(("rare-schema", slots, base, ret, all_refs))


def config_override_case(rng, rec, fam):
    """Config.json_schema: a hand-written schema for a member REPLACES what the builder would derive (also for members the builder
    cannot describe at all: an opaque third-party type, a reference back to the class itself); additionalProperties as given."""
    from jsonschema import Draft202012Validator
    from mashumaro.jsonschema import OPEN_API_3_1, DRAFT_2020_12, JSONSchemaBuilder, build_json_schema
    addl = rng.choice([True, False, None])
    base = "(DataClassDictMixin)" if rng.random() < 0.5 else ""
    src = ("class Opaque:\n    pass\n"
           f"@dataclass\nclass Ov{base}:\n    tp: Opaque = field(default_factory=Opaque, metadata=field_options(serialization_strategy=pass_through))\n"
           "    nxt: Optional['Ov'] = None\n    kids: List['Ov'] = field(default_factory=list)\n    n: int = 0\n    d: datetime.date = datetime.date(2000, 1, 1)\n"
           "    class Config(BaseConfig):\n        json_schema = {'properties': {'tp': {'type': 'string', 'description': 'opaque'}, 'nxt': {'type': 'object'}, "
           "'kids': {'type': 'array', 'items': {'type': 'object'}}, 'd': {'type': 'integer'}}"
           + (f", 'additionalProperties': {addl}" if addl is not None else "") + "}\n")
    fam.exec_src(src)
    m = fam.module
    facts = {"kind": "config-override"}
    for all_refs in (False, True):
        rec.evaluation()
        try:
            builder_defs = None
            if rng.random() < 0.5:
                s = build_json_schema(m.Ov, all_refs=all_refs)
            else:
                b = JSONSchemaBuilder(rng.choice([DRAFT_2020_12, OPEN_API_3_1]), all_refs=all_refs)
                s = b.build(m.Ov)
                builder_defs = json.loads(json.dumps(b.get_definitions().to_dict()))
            sd = s.to_dict()
        except RecursionError:
            rec.violation("config-override:RecursionError", {"source": src, "all_refs": all_refs}, dict(facts, exc="RecursionError"))
            continue
        except Exception as e:
            rec.violation(f"config-override:{type(e).__name__}", {"source": src, "all_refs": all_refs, "error": f"{type(e).__name__}: {e}"[:300]}, dict(facts, exc=type(e).__name__))
            continue
        body = sd
        if all_refs:
            defs = builder_defs or sd.get("$defs") or (sd.get("components") or {}).get("schemas") or {}
            body = defs.get("Ov", sd)
        props = body.get("properties") or {}
        problems = []
        if (props.get("tp") or {}).get("type") != "string" or (props.get("tp") or {}).get("description") != "opaque":
            problems.append(f"tp: {props.get('tp')!r}")
        if (props.get("nxt") or {}).get("type") != "object":
            problems.append(f"nxt: {props.get('nxt')!r}")
        if (props.get("d") or {}).get("type") != "integer":
            problems.append(f"d: {props.get('d')!r}")
        if (props.get("n") or {}).get("type") != "integer":
            problems.append(f"n: {props.get('n')!r}")
        if body.get("additionalProperties", "absent") != (False if addl is None else addl):
            problems.append(f"additionalProperties: {body.get('additionalProperties', 'absent')!r}")
        if problems:
            rec.violation("config-override:member-schema-not-the-one-given", {"source": src, "all_refs": all_refs, "problems": problems, "schema": common.short(sd, 600)}, facts)
        else:
            rec.count("schemas_ok")
            rec.count("config_overrides_ok")
            rec.nontrivial(("config-override", all_refs, addl, base))


def plugin_chain_case(rng, rec, fam):
    """every plugin of the chain is consulted; one that raises NotImplementedError ('not my instance') is skipped, the
    others still apply, in any order of registration."""
    from jsonschema import Draft202012Validator
    from mashumaro.jsonschema import DRAFT_2020_12, OPEN_API_3_1, JSONSchemaBuilder, build_json_schema
    fam.exec_src("from mashumaro.jsonschema.plugins import BasePlugin, DocstringDescriptionPlugin\n"
                 "from mashumaro.jsonschema.models import JSONSchema, JSONSchemaInstanceType\n"
                 "class ThirdParty:\n    pass\n"
                 "class Refuser(BasePlugin):\n    def get_schema(self, instance, ctx, schema=None):\n        raise NotImplementedError\n"
                 "class Quiet(BasePlugin):\n    pass\n"
                 "class ThirdPartyPlugin(BasePlugin):\n    def get_schema(self, instance, ctx, schema=None):\n"
                 "        if instance.type is ThirdParty:\n            return JSONSchema(type=JSONSchemaInstanceType.STRING, pattern='^tp:')\n"
                 "        raise NotImplementedError\n"
                 "class Titler(BasePlugin):\n    def get_schema(self, instance, ctx, schema=None):\n"
                 "        if schema is not None and instance.type is int:\n            schema.title = 'an int'\n        return None\n"
                 "@dataclass\nclass WithTP:\n    'the documented class'\n    x: ThirdParty\n    n: int = 0\n    xs: List[ThirdParty] = field(default_factory=list)\n")
    m = fam.module
    pool = [("refuser", m.Refuser), ("quiet", m.Quiet), ("third", m.ThirdPartyPlugin), ("doc", m.DocstringDescriptionPlugin), ("titler", m.Titler), ("refuser", m.Refuser)]
    for _ in range(4):
        rec.evaluation()
        chosen = rng.sample(pool, rng.randint(2, len(pool)))
        if not any(n == "third" for n, _ in chosen):
            chosen.insert(rng.randrange(len(chosen) + 1), ("third", m.ThirdPartyPlugin))
        names = [n for n, _ in chosen]
        plugins = [c() for _, c in chosen]
        det = {"plugins": names, "source": "".join(fam.sources[2:])}
        facts = {"kind": "plugins"}
        try:
            via = rng.choice(["function", "builder"])
            if via == "function":
                sd = build_json_schema(m.WithTP, plugins=plugins, all_refs=False).to_dict()
            else:
                sd = JSONSchemaBuilder(DRAFT_2020_12, all_refs=False, plugins=plugins).build(m.WithTP).to_dict()
        except Exception as e:
            rec.violation(f"plugins:build:{type(e).__name__}", dict(det, error=f"{type(e).__name__}: {e}"[:300]), dict(facts, exc=type(e).__name__))
            continue
        problems = []
        px = (sd.get("properties") or {}).get("x") or {}
        if px.get("type") != "string" or px.get("pattern") != "^tp:":
            problems.append(f"x described as {px!r}")
        items = ((sd.get("properties") or {}).get("xs") or {}).get("items") or {}
        if items.get("pattern") != "^tp:":
            problems.append(f"xs items described as {items!r}")
        if "doc" in names and sd.get("description") != "the documented class":
            problems.append(f"description {sd.get('description')!r}")
        if "titler" in names and ((sd.get("properties") or {}).get("n") or {}).get("title") != "an int":
            problems.append(f"n described as {(sd.get('properties') or {}).get('n')!r}")
        try:
            Draft202012Validator.check_schema(sd)
        except Exception as e:
            problems.append("metaschema: " + str(e)[:100])
        if problems:
            rec.violation("plugins:a-plugin-of-the-chain-was-not-applied", dict(det, problems=problems, schema=common.short(sd, 500)), facts)
        else:
            rec.count("schemas_ok")
            rec.count("plugin_chains_ok")
            rec.nontrivial(("plugins", tuple(names), via))


def run_case(seed, tier, rec, st):
    from jsonschema import Draft202012Validator
    from mashumaro.jsonschema import DRAFT_2020_12, OPEN_API_3_1, JSONSchemaBuilder, build_json_schema
    from mashumaro.jsonschema.models import JSONSchema
    rng = random.Random(seed)
    fam = Family("c20", future_annotations=rng.random() < 0.1)
    other = None
    try:
        fam.exec_src(ANN_IMPORT)
        tg = TypeGen(fam, rng, dc_config_fn=config_fn, allow_pattern=False, mixins=("DataClassDictMixin", "DataClassORJSONMixin"))
        tg.allow_self = False
        tg.allow_stype = False       # a SerializableType without annotations has no schema
        tg.boxed_prob = 0.25         # overridden serialization is a schema feature of its own
        kind = rng.random()
        facts = {"kind": "grammar"}
        if kind < 0.12:
            # self / mutually referencing dataclasses
            style = rng.choice(["self_opt", "self_list", "mutual", "self_Self", "self_dict"])
            facts = {"kind": "recursive", "style": style}
            base = "(DataClassDictMixin)" if rng.random() < 0.5 else ""
            if style == "self_opt":
                fam.exec_src(f"@dataclass\nclass Node{base}:\n    v: int = 0\n    nxt: Optional['Node'] = None\n")
            elif style == "self_list":
                fam.exec_src(f"@dataclass\nclass Node{base}:\n    v: int = 0\n    kids: List['Node'] = field(default_factory=list)\n")
            elif style == "self_dict":
                fam.exec_src(f"@dataclass\nclass Node{base}:\n    v: int = 0\n    m: Dict[str, 'Node'] = field(default_factory=dict)\n")
            elif style == "self_Self":
                fam.exec_src(f"@dataclass\nclass Node{base}:\n    v: int = 0\n    nxt: Optional[Self] = None\n")
            else:
                fam.exec_src(f"@dataclass\nclass Node{base}:\n    v: int = 0\n    other: Optional['Other'] = None\n@dataclass\nclass Other{base}:\n    back: Optional[Node] = None\n")
            types_ = [("raw", "Node"), ("raw", "List[Node]"), ("raw", "Optional[Node]")]
        elif kind < 0.17:
            # annotations that are not dataclass fields: inherited from an undecorated base / added by an undecorated subclass
            facts = {"kind": "non_field_annotations"}
            base = ", DataClassDictMixin" if rng.random() < 0.5 else ""
            fam.exec_src("class PlainBase:\n    note: str\n    count: int = 0\n"
                         f"@dataclass\nclass WithPlainBase(PlainBase{base}):\n    a: int = 0\n    b: Optional[datetime.date] = None\n"
                         f"@dataclass\nclass Decorated{('(' + base[2:] + ')') if base else ''}:\n    a: int = 0\n"
                         "class Undecorated(Decorated):\n    extra: int = 5\n    label: str = 'x'\n"
                         "@dataclass\nclass Holder:\n    u: Undecorated\n    w: List[WithPlainBase] = field(default_factory=list)\n")
            types_ = [("raw", "WithPlainBase"), ("raw", "Undecorated"), ("raw", "Holder")]
        elif kind < 0.21:
            facts = {"kind": "cross-module-namedtuple-pep563"}
            other = Family("c20fut", future_annotations=True)
            other.exec_src("class Color(enum.Enum):\n    red = 'red'\n"
                           "class OnlyThere(enum.Enum):\n    k = 'k'\n"
                           "class Point(NamedTuple):\n    x: int\n    c: Color\n    d: datetime.date = datetime.date(2000, 1, 1)\n    o: OnlyThere = OnlyThere.k\n"
                           "class TDx(TypedDict):\n    c: Color\n    o: OnlyThere\n")
            fam.module.other = other.module
            fam.exec_src("class Color(enum.Enum):\n    a = 1\n"
                         "@dataclass\nclass Fig:\n    p: other.Point\n    ps: List[other.Point] = field(default_factory=list)\n    op: Optional[other.Point] = None\n    td: Optional[other.TDx] = None\n")
            types_ = [("raw", "Fig"), ("raw", "other.Point"), ("raw", "List[Fig]")]
        elif kind < 0.25:
            # a class-wide strategy whose serialize returns the type it is registered for (normalisation): nothing to
            # re-type, however the field spells the type
            facts = {"kind": "strategy-returns-own-type"}
            fam.exec_src("def norm_str(v: str) -> str:\n    return v.strip()\n"
                         "def norm_dt(v: datetime.datetime) -> datetime.datetime:\n    return v.replace(microsecond=0)\n"
                         "TS = TypeVar('TS')\n"
                         "@dataclass\nclass GS(Generic[TS]):\n    g: TS\n    gs: List[TS] = field(default_factory=list)\n"
                         "    class Config(BaseConfig):\n        serialization_strategy = {str: {'serialize': norm_str}, datetime.datetime: {'serialize': norm_dt}}\n"
                         "@dataclass\nclass SR:\n    a: str\n    e: Annotated[datetime.datetime, 'when']\n    b: Annotated[str, 'doc'] = ''\n    c: Optional[str] = None\n    d: List[Annotated[str, 'x']] = field(default_factory=list)\n"
                         "    f: GS[str] = field(default_factory=lambda: GS('x'))\n"
                         "    class Config(BaseConfig):\n        serialization_strategy = {str: {'serialize': norm_str}, datetime.datetime: {'serialize': norm_dt}}\n")
            types_ = [("raw", "SR"), ("raw", "GS[str]"), ("raw", "GS[datetime.datetime]")]
        elif kind < 0.28:
            return plugin_chain_case(rng, rec, fam)
        elif kind < 0.30:
            return config_override_case(rng, rec, fam)
        elif kind < 0.32:
            return rare_schema_case(rng, rec, fam)
        elif kind < 0.33:
            # field-level overrides on collections whose ELEMENTS are composite (Optional / tuple / NamedTuple members): the
            # option is the field's, the element positions below it are described by the built-in rules
            facts = {"kind": "field-override-on-composite-elements"}
            fam.exec_src("class Pnt(NamedTuple):\n    x: int\n    y: int\n"
                         "def ser_dts(v) -> List[Optional[str]]:\n    return [None if x is None else x.isoformat() for x in v]\n"
                         "def ser_pairs(v) -> Dict[str, Tuple[str, str]]:\n    return {k: (a.isoformat(), b.isoformat()) for k, (a, b) in v.items()}\n"
                         "class DtList(SerializationStrategy):\n    def serialize(self, v) -> List[Optional[datetime.datetime]]:\n        return list(v)\n    def deserialize(self, v):\n        return v\n"
                         "class PairMap(SerializationStrategy, use_annotations=True):\n    def serialize(self, v) -> Dict[str, Tuple[datetime.date, datetime.date]]:\n        return dict(v)\n    def deserialize(self, v: Dict[str, Tuple[datetime.date, datetime.date]]):\n        return v\n")
            lines = ["@dataclass", "class CompEl:"]
            pool = ["    a: List[Optional[datetime.datetime]] = field(default_factory=list, metadata=field_options(serialize=ser_dts))",
                    "    b: Dict[str, Tuple[datetime.date, datetime.date]] = field(default_factory=dict, metadata=field_options(serialize=ser_pairs))",
                    "    c: List[Optional[datetime.datetime]] = field(default_factory=list, metadata=field_options(serialization_strategy=DtList()))",
                    "    d: Dict[str, Tuple[datetime.date, datetime.date]] = field(default_factory=dict, metadata=field_options(serialization_strategy=PairMap()))",
                    "    e: List[Optional[Pnt]] = field(default_factory=list, metadata=field_options(serialize='as_dict'))",
                    "    f: Dict[str, Tuple[Pnt, int]] = field(default_factory=dict, metadata=field_options(serialize='as_dict'))",
                    "    g: Tuple[List[Optional[datetime.date]], int] = field(default=((), 0), metadata=field_options(serialization_strategy=pass_through))"]
            lines += rng.sample(pool, rng.randint(2, 5))
            fam.exec_src("\n".join(lines) + "\n")
            types_ = [("raw", "CompEl"), ("raw", "List[CompEl]")]
        elif kind < 0.37:
            ann = rng.choice(ANNOTATIONS)
            facts = {"kind": "annotated", "annotation": ann[1], "unhashable_metadata": ("{" in ann[1] or "[" in ann[1])}
            dflt = {"int": "2", "float": "1.5", "str": "'abc'", "List[int]": None, "Dict[str, int]": None, "List[str]": None}[ann[0]]
            cfg = config_fn(rng)
            cfg.pop("_aliases", None)
            alias_ann = ""
            if rng.random() < 0.4:
                # the field (literally named x) renamed on output, through the annotation or through Config.aliases
                if rng.random() < 0.5:
                    alias_ann = ", Alias('AX')"
                else:
                    cfg["aliases"] = "{'x': 'CX'}"
                facts["aliased"] = True
            cfg_src = ("    class Config(BaseConfig):\n" + "".join(f"        {k} = {v}\n" for k, v in cfg.items())) if cfg else ""
            fsrc = f"    x: Annotated[{ann[0]}, {ann[1]}{alias_ann}]" + (f" = {dflt}" if dflt and rng.random() < 0.6 else "")
            fam.exec_src(f"@dataclass\nclass AnnDC:\n{fsrc}\n{cfg_src}")
            types_ = [("raw", "AnnDC"), ("raw", f"Annotated[{ann[0]}, {ann[1]}]")]
        else:
            t = tg.dataclass(rng.randint(0, 2)) if rng.random() < 0.6 else tg.type(rng.randint(0, 2))
            types_ = [t]
            facts["type_kinds"] = sorted({n[0] for n in common.deep_nodes(fam, t)})
            # finding F20 (a union serializes a later container member's value unconverted) also reaches schema
            # defaults, which are rendered by the serializer
            facts["union_copy_shortcut"] = common.union_copy_fact(fam, t)
        ns = fam.module.__dict__
        if types_ and types_[0][0] != "raw" and rng.random() < 0.5:
            # history: the schemas of the ANCESTORS were built first; the document must be the one a fresh twin family
            # (same source, nothing built before) gets for the same type
            ancestors = common.ancestor_classes(fam, types_[0])
            twin_doc = None
            if ancestors:
                twin = Family("c20twin", future_annotations=fam.future)
                try:
                    twin.module._V = fam.module._V
                    for src in fam.sources[1:]:
                        twin.exec_src(src)
                    twin_doc = build_json_schema(common.eval_type(twin, types_[0]), all_refs=False).to_dict()
                except Exception:
                    twin_doc = None
                finally:
                    twin.dispose()
            for A in ancestors:
                try:
                    build_json_schema(A, all_refs=rng.random() < 0.5)
                    rec.count("history_ancestor_schema_built_first")
                except Exception:
                    pass
            if twin_doc is not None:
                rec.evaluation()
                try:
                    here = build_json_schema(common.eval_type(fam, types_[0]), all_refs=False).to_dict()
                except Exception as e:
                    here = f"{type(e).__name__}: {e}"[:200]
                if json.dumps(here, sort_keys=True, default=str) == json.dumps(twin_doc, sort_keys=True, default=str):
                    rec.count("history_ancestors_first_same_document")
                else:
                    rec.violation("history:document-depends-on-ancestors-built-first", {"type": tast.render(types_[0]), "after_ancestors": common.short(here, 600),
                                  "fresh_twin": common.short(twin_doc, 600), "family": fam.to_json()}, dict(facts, history="ancestors-first"))
        for t in types_:
            tsrc = t[1] if t[0] == "raw" else tast.render(t)
            T = eval(tsrc, ns) if t[0] == "raw" else common.eval_type(fam, t)
            tshape = tsrc if t[0] == "raw" else tast.shape_hash(t)
            variants = []
            for dialect in (DRAFT_2020_12, OPEN_API_3_1):
                for all_refs in (None, False, True):
                    for prefix in (None, "#/defs", "#/defs/", "#/components/x/"):
                        variants.append((dialect, all_refs, prefix))
            for dialect, all_refs, prefix in rng.sample(variants, 5 if tier == "quick" else 12):
                rec.evaluation()
                with_defs = rng.random() < 0.8
                with_uri = rng.random() < 0.3
                vdesc = {"dialect": type(dialect).__name__, "all_refs": all_refs, "ref_prefix": prefix, "with_definitions": with_defs, "with_dialect_uri": with_uri}
                det = {"type": tsrc, "variant": vdesc, "family": fam.to_json()}
                try:
                    s = build_json_schema(T, dialect=dialect, all_refs=all_refs, ref_prefix=prefix, with_definitions=with_defs, with_dialect_uri=with_uri)
                    sd = s.to_dict()
                except RecursionError:
                    rec.violation("build:RecursionError", det, dict(facts, exc="RecursionError"))
                    continue
                except Exception as e:
                    rec.violation(f"build:{type(e).__name__}", dict(det, error=f"{type(e).__name__}: {e}"[:300]), dict(facts, exc=type(e).__name__, msg=str(e)[:100]))
                    continue
                ok = True
                try:
                    json.dumps(sd)
                except Exception as e:
                    rec.violation("document-not-json-serialisable", dict(det, error=str(e)[:200]), dict(facts, encoded_only_basic=False))
                    ok = False
                try:
                    Draft202012Validator.check_schema(sd)
                except Exception as e:
                    rec.violation("metaschema-invalid", dict(det, error=str(e)[:300], schema=common.short(sd, 600)), facts)
                    ok = False
                # refs closed
                eff_prefix = (prefix.rstrip("/") if prefix is not None else dialect.definitions_root_pointer)
                refs = []
                collect_refs(sd, refs)
                defs_key = eff_prefix.split("/")[-1] if with_defs else None
                try:
                    ctx_defs = set((s.definitions or {}).keys()) if with_defs else None
                except Exception:
                    ctx_defs = None
                for r in refs:
                    rec.count("refs_checked")
                    if not r.startswith(eff_prefix + "/"):
                        rec.violation("ref-without-configured-prefix", dict(det, ref=r, prefix=eff_prefix), facts)
                        ok = False
                    elif ctx_defs is not None and r[len(eff_prefix) + 1:] not in ctx_defs:
                        rec.violation("ref-names-no-collected-definition", dict(det, ref=r, definitions=sorted(ctx_defs)), facts)
                        ok = False
                try:
                    rt = JSONSchema.from_dict(sd).to_dict()
                    if rt != sd:
                        rec.violation("schema-document-roundtrip-differs", dict(det, schema=common.short(sd, 500), roundtrip=common.short(rt, 500)), facts)
                        ok = False
                except Exception as e:
                    rec.violation(f"schema-document-roundtrip-exception:{type(e).__name__}", dict(det, error=str(e)[:300], schema=common.short(sd, 500)), facts)
                    ok = False
                if ok:
                    rec.count("schemas_ok")
                    rec.nontrivial((tshape, repr(sorted(vdesc.items()))))
            # ---- builder sequences over a shared context
            rec.evaluation()
            dialect = rng.choice([DRAFT_2020_12, OPEN_API_3_1])
            all_refs = rng.choice([None, True, True, False])
            prefix = rng.choice([None, "#/defs", "#/defs/", "#/components/schemas/"])
            try:
                b = JSONSchemaBuilder(dialect, all_refs=all_refs, ref_prefix=prefix)
                wrappers = ["List[{}]", "Dict[str, {}]", "Tuple[{}, int]"]
                if not facts.get("unhashable_metadata"):
                    wrappers.append("Optional[{}]")      # typing itself must hash Union members
                seq = [T] + [eval(w.format(tsrc), ns) for w in rng.sample(wrappers, 2)] + [T]
                seen_defs = {}
                eff_prefix = (prefix.rstrip("/") if prefix is not None else dialect.definitions_root_pointer)
                docs = []
                interleave = rng.randint(1, len(seq) - 1) if rng.random() < 0.6 else None
                for step, ty in enumerate(seq):
                    if step == interleave:
                        # a one-shot call borrowing the builder's context with its own overrides: the builder's options
                        # are the builder's (same prefix, so shared definitions stay closed under it)
                        before = (b.context.dialect, b.context.all_refs, b.context.ref_prefix, b.context.plugins)
                        eff_all = b.context.all_refs
                        build_json_schema(T, context=b.context, all_refs=not eff_all, with_definitions=False, with_dialect_uri=True)
                        after = (b.context.dialect, b.context.all_refs, b.context.ref_prefix, b.context.plugins)
                        rec.count("builder_context_borrowed")
                        if before != after:
                            rec.violation("builder:context-options-changed-by-one-shot-call", {"type": tsrc, "before": common.short(before), "after": common.short(after)}, facts)
                    sd = b.build(ty).to_dict()
                    docs.append(sd)
                    defs = json.loads(json.dumps(b.get_definitions().to_dict()))
                    for k, v in seen_defs.items():
                        if k not in defs:
                            rec.violation("builder:definition-disappeared", {"type": tsrc, "step": step, "name": k}, facts)
                        elif defs[k] != v:
                            rec.violation("builder:definition-changed-between-builds", {"type": tsrc, "step": step, "name": k, "before": common.short(v), "after": common.short(defs[k])}, facts)
                    seen_defs = defs
                    refs = []
                    collect_refs(sd, refs)
                    collect_refs(defs, refs)
                    for r in refs:
                        rec.count("refs_checked")
                        if not r.startswith(eff_prefix + "/") or r[len(eff_prefix) + 1:] not in defs:
                            rec.violation("builder:ref-not-closed", {"type": tsrc, "ref": r, "prefix": eff_prefix, "definitions": sorted(defs), "builder": {"all_refs": all_refs, "ref_prefix": prefix}}, facts)
                if docs[0] != docs[-1]:
                    rec.violation("builder:same-type-built-twice-differs", {"type": tsrc, "first": common.short(docs[0]), "last": common.short(docs[-1])}, facts)
                one = build_json_schema(T, dialect=dialect, all_refs=all_refs, ref_prefix=prefix, with_definitions=False).to_dict()
                if one != docs[0]:
                    rec.violation("builder:disagrees-with-one-shot-call", {"type": tsrc, "builder": common.short(docs[0], 400), "one_shot": common.short(one, 400),
                                  "args": {"all_refs": all_refs, "ref_prefix": prefix}}, facts)
                rec.count("builder_sequences")
                # one-shot calls that share ONE context, each asked for its own definitions: every returned document is closed
                from mashumaro.jsonschema.models import Context
                shared = Context(dialect=dialect, all_refs=True)
                for step, ty in enumerate(seq):
                    doc = build_json_schema(ty, context=shared, with_definitions=True).to_dict()
                    own = set((doc.get("$defs") or (doc.get("components") or {}).get("schemas") or doc.get("definitions") or {}).keys())
                    refs = []
                    collect_refs(doc, refs)
                    dangling = [r for r in refs if r.rsplit("/", 1)[-1] not in own]
                    rec.count("refs_checked", len(refs))
                    if dangling:
                        rec.violation("shared-context:one-shot-document-not-closed", {"type": tsrc, "step": step, "dangling": dangling[:5], "own_definitions": sorted(own),
                                      "document": common.short(doc, 500)}, facts)
                        break
                else:
                    rec.count("shared_context_documents_closed")
            except RecursionError:
                rec.violation("builder:RecursionError", {"type": tsrc}, dict(facts, exc="RecursionError"))
            except Exception as e:
                rec.violation(f"builder:{type(e).__name__}", {"type": tsrc, "error": f"{type(e).__name__}: {e}"[:300], "family": fam.to_json()},
                              dict(facts, exc=type(e).__name__, msg=str(e)[:100], **({"encoded_only_basic": False} if "not JSON serializable" in str(e) else {})))
        rec.sample({"types": [t[1] if t[0] == "raw" else tast.render(t) for t in types_], "facts": facts})
    finally:
        fam.dispose()
        if other:
            other.dispose()
