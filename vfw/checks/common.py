"""helpers shared by the per-property check modules."""
from __future__ import annotations

import random

from .. import tast
from ..family import Family
from ..gen import TypeGen
from ..ref import Ref
from ..values import Gen
from ..monitors import GEN, RaiseMonitor, LineCoverage


def install_monitors(rec, raise_monitor=True, coverage=True):
    """generated-code registry + swallowed-exception monitor + line coverage."""
    GEN.install()
    st = {"gen": GEN}
    if raise_monitor:
        rm = RaiseMonitor(GEN)
        rm.install()
        st["raise"] = rm
    if coverage:
        cov = LineCoverage(GEN)
        cov.install()
        st["cov"] = cov
    return st


def finish_monitors(rec, st):
    gen = st["gen"]
    rec.count("generated_functions", len(gen.functions))
    rec.count("exec_events", gen.exec_events)
    if "cov" in st:
        rec.count("generated_lines_total", gen.total_lines())
        rec.count("generated_lines_executed", len(st["cov"].hit))
    if "raise" in st:
        for k, v in st["raise"].counts.items():
            rec.count(f"raised_in_generated:{k}", v)


def safe_config(rng, *, allow_aliases=True):
    """Config option vector without key-dropping options (C01-style)."""
    cfg = {}
    if rng.random() < 0.3:
        cfg["sort_keys"] = "True"
    if rng.random() < 0.25:
        cfg["lazy_compilation"] = "True"
    if rng.random() < 0.3:
        cfg["namedtuple_as_dict"] = "True"
    if rng.random() < 0.3:
        # TO_DICT_ADD_BY_ALIAS_FLAG is left to C08: an outer class forwards its own
        # by_alias default to nested classes that enabled the flag, which (by design)
        # overrides the nested serialize_by_alias and breaks alias round trips
        flags = [f for f in ("TO_DICT_ADD_OMIT_NONE_FLAG",
                             "ADD_DIALECT_SUPPORT", "ADD_SERIALIZATION_CONTEXT") if rng.random() < 0.4]
        cfg["code_generation_options"] = "[" + ", ".join(flags) + "]"
    return cfg


def short(x, n=300):
    s = repr(x)
    return s if len(s) <= n else s[:n] + "..."


def eval_type(fam, t):
    """live typing object of an AST (a bare None shape is passed as NoneType, the
    way typing normalises it inside annotations)."""
    if t == ("none",):
        return type(None)
    return eval(tast.render(t), fam.module.__dict__)


CONV_FREE = ("int", "float", "bool", "str", "none", "any")


def _copy_shortcut(m):
    """member whose packer is `value.copy()` (identity elements, origin list/dict)."""
    m = tast.strip(m)
    if m[0] == "seq" and tast.SEQ_SPELLINGS[m[1]][0] in ("List", "list"):
        return tast.strip(m[2])[0] in CONV_FREE
    if m[0] == "map" and tast.MAP_SPELLINGS[m[1]][0] in ("Dict", "dict"):
        return tast.strip(m[2])[0] in CONV_FREE and tast.strip(m[3])[0] in CONV_FREE
    return False


def deep_nodes(fam, t, _seen=None):
    """all AST nodes reachable from t, descending into named classes."""
    _seen = _seen if _seen is not None else set()
    for n in tast.walk(t):
        yield n
        if n[0] in ("dc", "nt", "td", "gdc") and n[1] not in _seen:
            _seen.add(n[1])
            df = fam.defs[n[1]]
            fields = fam.dc_fields(n[1]) if df["k"] == "dc" else df["fields"]
            for f in fields:
                yield from deep_nodes(fam, f["t"], _seen)


def union_copy_fact(fam, t):
    """type contains a union in which a `.copy()`-packed member is declared before
    another container member of a different kind (finding F20)."""
    for n in deep_nodes(fam, t):
        if n[0] != "union":
            continue
        ms = [tast.strip(m) for m in n[1]]
        for i, m in enumerate(ms):
            if _copy_shortcut(m):
                for o in ms[i + 1:]:
                    if o[0] in ("seq", "map", "counter", "chainmap", "vtuple", "tuple") and o[0] != m[0]:
                        return True
    return False


def align_unions(fam, t, live):
    """typing caches generic aliases and Union equality ignores member order, so `Union[float, int]` evaluated in a
    long-running process may come back as an earlier `Union[int, float]` object.  The library sees the live object:
    re-order the AST's union members to the live __args__ order (recursively through the common wrappers)."""
    import typing
    k = t[0]
    try:
        if k == "union":
            args = list(typing.get_args(live))
            members = list(t[1])
            live_of = []
            for m in members:
                live_of.append(type(None) if m == ("none",) else eval_type(fam, m))
            ordered = []
            used = set()
            for a in args:
                for i, lm in enumerate(live_of):
                    if i not in used and (lm is a or lm == a):
                        ordered.append(align_unions(fam, members[i], a))
                        used.add(i)
                        break
            if len(ordered) == len(members):
                return ("union", tuple(ordered)) + tuple(t[2:])
            return t
        if k == "opt":
            inner = [a for a in typing.get_args(live) if a is not type(None)]
            if tast.strip(t[1])[0] == "union":
                # Optional[Union[a, b]] is the flat Union[a, b, None]
                sub = ("union", tuple(t[1][1]) + (("none",),))
                al = align_unions(fam, sub, live)
                return al if al[0] == "union" and len(al[1]) == len(sub[1]) else t
            if len(inner) == 1:
                return ("opt", align_unions(fam, t[1], inner[0])) + tuple(t[2:])
            return t
        if k == "seq":
            return (k, t[1], align_unions(fam, t[2], typing.get_args(live)[0]))
        if k == "map":
            a = typing.get_args(live)
            return (k, t[1], t[2], align_unions(fam, t[3], a[1]))
        if k == "vtuple":
            return (k, t[1], align_unions(fam, t[2], typing.get_args(live)[0]))
        if k == "tuple":
            a = typing.get_args(live)
            if len(a) == len(t[2]):
                return (k, t[1], [align_unions(fam, m, x) for m, x in zip(t[2], a)])
    except Exception:
        return t
    return t


_BASIC_KINDS = ("int", "float", "bool", "str", "none")


def earlier_member(ref, t, v, _cls=None, _depth=0):
    """F20 mechanism fact: somewhere in the value (containers, dataclass / NamedTuple / TypedDict members, Self) a union
    position holds a value whose own non-scalar member is declared AFTER another non-scalar member."""
    s = tast.strip(t)
    if _depth > 12:
        return False
    if s[0] in ("dc", "gdc", "self") and v is not None:
        name = _cls if s[0] == "self" else s[1]
        if name is None or name not in ref.fam.defs:
            return False
        out = False
        for f in ref.fam.dc_fields(name):
            try:
                x = getattr(v, f["n"])
            except AttributeError:
                continue
            try:
                out = out or bool(earlier_member(ref, f["t"], x, name, _depth + 1))
            except Exception:
                pass
        return out
    if s[0] == "nt" and isinstance(v, tuple):
        return any(earlier_member(ref, f["t"], x, _cls, _depth + 1) for f, x in zip(ref.fam.defs[s[1]]["fields"], v))
    if s[0] == "td" and isinstance(v, dict):
        return any(earlier_member(ref, f["t"], v[f["n"]], _cls, _depth + 1) for f in ref.fam.defs[s[1]]["fields"] if f["n"] in v)
    if s[0] == "tv":
        df = ref.fam.defs[s[1]]
        if df.get("constraints"):
            s = ("union", tuple(df["constraints"]))
    if s[0] == "union" or (s[0] == "opt" and tast.strip(s[1])[0] == "union"):
        ms = ref.union_members(s)
        owner = ref.member_of(ms, v)
        if owner is None or tast.strip(owner)[0] in _BASIC_KINDS:
            # basic scalar members are matched by exact class before anything else: never explained by F20
            return False
        before = ms[:ms.index(owner)]
        return any(tast.strip(m)[0] not in _BASIC_KINDS for m in before)
    if s[0] == "opt":
        return v is not None and earlier_member(ref, s[1], v, _cls, _depth + 1)
    if s[0] == "seq":
        return any(earlier_member(ref, s[2], x, _cls, _depth + 1) for x in v)
    if s[0] == "map":
        return any(earlier_member(ref, s[3], x, _cls, _depth + 1) for x in v.values())
    if s[0] == "vtuple":
        return any(earlier_member(ref, s[2], x, _cls, _depth + 1) for x in v)
    if s[0] == "tuple":
        return any(earlier_member(ref, m, x, _cls, _depth + 1) for m, x in zip(s[2], v))
    return False



def two_module_generic_case(rng, rec, prefix, det_extra=None):
    """a generic dataclass specialised with two classes of the same name from two modules, reached through two holders
    in random order (the compiled per-specialisation methods must not be confused); returns nothing, records
    violations with signature prefix 'two-module-generic'."""
    from ..family import Family
    from mashumaro.codecs.basic import BasicDecoder, BasicEncoder
    fam, other = Family(prefix), Family(prefix + "o")
    try:
        mix = "(DataClassDictMixin)" if rng.random() < 0.5 else ""
        other.exec_src(f"@dataclass\nclass User{mix}:\n    name: str\n    age: int = 0\n")
        fam.module.other = other.module
        gmix = "DataClassDictMixin, " if rng.random() < 0.5 else ""
        fam.exec_src("T = TypeVar('T')\n"
                     f"@dataclass\nclass User{mix}:\n    name: str\n    email: str = ''\n"
                     f"@dataclass\nclass Page({gmix}Generic[T]):\n    items: List[T] = field(default_factory=list)\n    first: Optional[T] = None\n"
                     "@dataclass\nclass R1(DataClassDictMixin):\n    page: Page[User]\n"
                     "@dataclass\nclass R2(DataClassDictMixin):\n    page: Page[other.User]\n")
        m, o = fam.module, other.module
        v1 = m.R1(m.Page([m.User("a", "a@x"), m.User("b")], m.User("c", "c@x")))
        v2 = m.R2(m.Page([o.User("d", 4), o.User("e")], None))
        cases = [("R1", m.R1, v1, m.User), ("R2", m.R2, v2, o.User)]
        rng.shuffle(cases)
        routes = rng.sample(["mixin", "codec"], 2)
        for cname, cls, v, ucls in cases:
            for route in routes:
                rec.evaluation()
                try:
                    if route == "mixin":
                        doc = v.to_dict()
                        back = cls.from_dict(doc)
                    else:
                        doc = BasicEncoder(cls).encode(v)
                        back = BasicDecoder(cls).decode(doc)
                except Exception as e:
                    rec.violation(f"two-module-generic:{route}:exception:{type(e).__name__}", {"holder": cname, "error": f"{type(e).__name__}: {e}"[:300],
                                  "source": "".join(fam.sources[1:]) + "".join(other.sources[1:])}, {"scenario": "two-module-generic", "order": [c[0] for c in cases]})
                    continue
                ok = back == v and all(type(x) is ucls for x in back.page.items) and (back.page.first is None or type(back.page.first) is ucls)
                if ok:
                    rec.count("two_module_generic_ok")
                    rec.nontrivial(("two-module-generic", cname, route, tuple(c[0] for c in cases)))
                else:
                    rec.violation(f"two-module-generic:{route}:wrong-class-or-value", {"holder": cname, "document": short(doc, 300), "decoded": short(back, 300),
                                  "expected": short(v, 300), "source": "".join(fam.sources[1:]) + "".join(other.sources[1:])},
                                  {"scenario": "two-module-generic", "order": [c[0] for c in cases]})
    finally:
        fam.dispose()
        other.dispose()


def engine_over_native(fam, t, natives):
    """finding F45 mechanism: a dataclass field carrying a NamedTuple engine option (serialize='as_dict' | 'as_list')
    whose type holds - outside collections, i.e. where the field's metadata still travels - a type the format dialect
    declares native."""
    natives = set(natives)
    if not natives:
        return False

    def reach(tt, seen):
        s = tast.strip(tt)
        k = s[0]
        if k in natives:
            return True
        if k == "lit" and "bytes" in natives and any(c[0] == "y" for c in s[1]):
            return True                  # a bytes constant of a Literal is a bytes value on the wire
        if k in ("seq", "map", "counter", "chainmap", "dc", "gdc"):
            return False                 # metadata is dropped for collection elements; nested classes have their own
        if k in ("nt", "td") and s[1] not in seen:
            seen.add(s[1])
            return any(reach(f["t"], seen) for f in fam.defs[s[1]]["fields"])
        return any(reach(c, seen) for c in tast.children(s))
    for name, d in fam.defs.items():
        if d.get("k") != "dc":
            continue
        for f in d["fields"]:
            if not f.get("raw") and (f.get("meta") or {}).get("serialize") in ("'as_dict'", "'as_list'") and reach(f["t"], set()):
                return True
    return False


def ancestor_classes(fam, t):
    """live dataclass ancestors (transitive bases known to the family) of every dataclass node of the type, root first."""
    out, seen = [], set()

    def walk(name):
        for b in fam.defs.get(name, {}).get("bases", ()) or ():
            bname = b.split("[")[0]
            if bname in fam.defs and fam.defs[bname].get("k") == "dc" and bname not in seen:
                seen.add(bname)
                walk(bname)
                out.append(fam.get(bname))
    for n in deep_nodes(fam, t):
        if n[0] in ("dc", "gdc"):
            walk(n[1])
    return out
