"""./check CNN --tier quick|thorough [--seed N] [--replay path]"""
import argparse
import os
import sys

sys.path.insert(0, os.path.dirname(os.path.dirname(os.path.abspath(__file__))))
from vfw import runner  # noqa: E402


def main():
    ap = argparse.ArgumentParser()
    ap.add_argument("check")
    ap.add_argument("--tier", default=os.environ.get("VERIF_TIER", "quick"), choices=["quick", "thorough"])
    ap.add_argument("--seed", type=int, default=int(os.environ.get("VERIF_SEED", "0")))
    ap.add_argument("--replay")
    ap.add_argument("--jobs", type=int)
    ap.add_argument("--keep", action="store_true")
    a = ap.parse_args()
    sys.exit(runner.main_check(a.check, a.tier, a.seed, a.jobs, a.replay, a.keep))


main()
