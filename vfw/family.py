"""Class families: JSON-serialisable specs rendered to *source text* and executed
in a fresh module registered in sys.modules (so forward references resolve the
way they do for user code).  Definitions can be added incrementally (histories).

def kinds
  enum     {'k':'enum','name','base','members':[(name, value)], 'functional':bool}
  nt       {'k':'nt','name','fields':[{'n','t','dseed'|None}], 'functional':bool}
  td       {'k':'td','name','total':bool,'fields':[{'n','t','q':None|'Required'|'NotRequired'}], 'functional':bool}
  newtype  {'k':'newtype','name','t'}
  typevar  {'k':'typevar','name','constraints':[t..],'bound':t|None}
  dc       {'k':'dc','name','bases':[name..],'mixin':src|None,'generic':[tvname..],
            'fields':[{'n','t','dmode':None|'default'|'factory','dseed','alias','meta':{k:src},
                       'init':bool,'kw_only':bool|None,'fwd':bool}],
            'config':{opt: python-source}, 'dc_args': {k: v}, 'body': [extra source lines],
            'local': bool}
"""
from __future__ import annotations

import __future__ as _future
import itertools
import linecache
import random
import sys
import types

from . import tast

_counter = itertools.count()
_NOCONST = object()


def _fresh(v):
    """fresh deep copy usable as a default_factory result (mappingproxy aware)."""
    import collections
    import copy
    import dataclasses
    if isinstance(v, types.MappingProxyType):
        return types.MappingProxyType({_fresh(k): _fresh(x) for k, x in v.items()})
    if isinstance(v, collections.ChainMap):
        return collections.ChainMap(*[_fresh(m) for m in v.maps])
    if isinstance(v, collections.defaultdict):
        return collections.defaultdict(v.default_factory, {_fresh(k): _fresh(x) for k, x in v.items()})
    if isinstance(v, (dict, collections.OrderedDict, collections.Counter)):
        return type(v)({_fresh(k): _fresh(x) for k, x in v.items()})
    if isinstance(v, tuple) and hasattr(v, "_fields"):
        return type(v)(*[_fresh(x) for x in v])
    if isinstance(v, (list, tuple, set, frozenset, collections.deque)):
        return type(v)(_fresh(x) for x in v)
    if dataclasses.is_dataclass(v) and not isinstance(v, type):
        new = copy.copy(v)
        for f in dataclasses.fields(v):
            try:
                object.__setattr__(new, f.name, _fresh(getattr(v, f.name)))
            except Exception:
                pass
        return new
    try:
        return copy.deepcopy(v)
    except Exception:
        return v


class Family:
    def __init__(self, name_prefix="vfam", future_annotations=False, extra_ns=None):
        self.modname = f"{name_prefix}_{next(_counter)}"
        self.future = future_annotations
        self.module = types.ModuleType(self.modname)
        sys.modules[self.modname] = self.module
        self.defs = {}          # name -> def
        self.order = []         # definition order
        self.sources = []       # source segments actually executed
        self.values = {}        # default values created for fields: (cls, field) -> object
        self._seg = 0
        self.exec_src(tast.PRELUDE)
        self.module._V = {}
        self.module._fresh = _fresh
        if extra_ns:
            self.module.__dict__.update(extra_ns)

    # ------------------------------------------------------------ exec
    def exec_src(self, src: str):
        fn = f"<{self.modname}:{self._seg}>"
        self._seg += 1
        flags = _future.annotations.compiler_flag if self.future else 0
        code = compile(src, fn, "exec", flags=flags, dont_inherit=True)
        linecache.cache[fn] = (len(src), None, src.splitlines(True), fn)
        self.sources.append(src)
        exec(code, self.module.__dict__)

    def dispose(self):
        sys.modules.pop(self.modname, None)

    def get(self, name):
        return getattr(self.module, name)

    # ------------------------------------------------------------ rendering
    def add(self, d, value_maker=None):
        """render + exec one definition.  value_maker(type_ast, seed) -> object is
        used to materialise defaults (needs earlier classes to exist)."""
        self.defs[d["name"]] = d
        self.order.append(d["name"])
        src = self.render_def(d, value_maker)
        self.exec_src(src)
        return self.get(d["name"])

    def render_def(self, d, value_maker=None) -> str:
        k = d["k"]
        if k == "enum":
            return self._render_enum(d)
        if k == "nt":
            return self._render_nt(d, value_maker)
        if k == "td":
            return self._render_td(d)
        if k == "newtype":
            return f"{d['name']} = NewType({d['name']!r}, {tast.render(d['t'])})\n"
        if k == "talias":
            # PEP 695 alias: a lazily evaluated, transparent name for any type expression
            return f"type {d['name']} = {tast.render(d['t'])}\n"
        if k == "typevar":
            args = [repr(d["name"])]
            args += [tast.render(c) for c in d.get("constraints", ())]
            if d.get("bound") is not None:
                args.append(f"bound={tast.render(d['bound'])}")
            return f"{d['name']} = TypeVar({', '.join(args)})\n"
        if k == "dc":
            return self._render_dc(d, value_maker)
        if k == "stype":
            return self._render_stype(d)
        if k == "boxed":
            return self._render_boxed(d)
        if k == "raw":
            return d["src"]
        raise ValueError(k)

    def _render_stype(self, d):
        """a user type implementing the SerializableType protocol: plain (the methods speak basic data) or
        use_annotations=True (the methods are annotated with a wire TYPE the library converts)."""
        n = d["name"]
        common = (f"    def __init__(self, a, b):\n        self.a, self.b = a, b\n"
                  f"    def __eq__(self, o):\n        return type(o) is type(self) and (self.a, self.b) == (o.a, o.b)\n"
                  f"    def __hash__(self):\n        return hash((self.a, self.b))\n"
                  f"    def __repr__(self):\n        return '{n}(%r, %r)' % (self.a, self.b)\n")
        if d["flavour"] == "plain":
            return (f"class {n}(SerializableType):\n" + common +
                    "    def _serialize(self):\n        return [self.a, self.b]\n"
                    "    @classmethod\n    def _deserialize(cls, value):\n        a, b = value\n        return cls(int(a), str(b))\n")
        if d["flavour"] == "annotations-list":
            # hands out a list it OWNS; the annotated wire type has conversion-free elements
            return (f"class {n}(SerializableType, use_annotations=True):\n" + common.replace("hash((self.a, self.b))", "hash((tuple(self.a), self.b))") +
                    "    def _serialize(self) -> Tuple[List[int], int]:\n        return (self.a, self.b)\n"
                    "    @classmethod\n    def _deserialize(cls, value: Tuple[List[int], int]):\n        return cls(*value)\n")
        return (f"class {n}(SerializableType, use_annotations=True):\n" + common +
                "    def _serialize(self) -> Tuple[datetime.date, int]:\n        return (self.a, self.b)\n"
                "    @classmethod\n    def _deserialize(cls, value: Tuple[datetime.date, int]):\n        return cls(*value)\n")

    def _render_boxed(self, d):
        """a user class the library cannot serialize by itself, plus the SerializationStrategy registered for it (by
        Config.serialization_strategy of every dataclass that mentions it, or by the field): a plain strategy object, one
        with use_annotations=True (the library converts the annotated wire type), a SUBCLASS of such a strategy that
        does not repeat the keyword, or the dict form with two callables."""
        n, fl = d["name"], d["flavour"]
        src = (f"class {n}:\n    def __init__(self, items):\n        self.items = list(items)\n"
               f"    def __eq__(self, o):\n        return type(o) is type(self) and self.items == o.items\n"
               f"    def __hash__(self):\n        return hash(tuple(self.items))\n"
               f"    def __repr__(self):\n        return '{n}(%r)' % (self.items,)\n")
        plain_ser = "[x.isoformat() for x in value.items]"
        plain_de = f"{n}([datetime.date.fromisoformat(x) for x in value])"
        if fl == "plain":
            src += (f"class {n}_Strategy(SerializationStrategy):\n    def serialize(self, value):\n        return {plain_ser}\n"
                    f"    def deserialize(self, value):\n        return {plain_de}\n{n}_S = {n}_Strategy()\n")
        elif fl == "dict":
            src += f"{n}_S = {{'serialize': (lambda value: {plain_ser}), 'deserialize': (lambda value: {plain_de})}}\n"
        else:
            base = f"{n}_Base" if fl == "annotated-sub" else f"{n}_Strategy"
            src += (f"class {base}(SerializationStrategy, use_annotations=True):\n"
                    f"    def serialize(self, value: {n}) -> List[datetime.date]:\n        return value.items\n"
                    f"    def deserialize(self, value: List[datetime.date]) -> {n}:\n        return {n}(value)\n")
            if fl == "annotated-sub":
                src += f"class {n}_Strategy({n}_Base):\n    pass\n"
            src += f"{n}_S = {n}_Strategy()\n"
        # a stand-alone parser for one-way ({'deserialize': ...}) registrations on a field
        src += (f"def {n}_DE(value):\n    return {n}([x if isinstance(x, datetime.date) else datetime.date.fromisoformat(x) for x in value])"
                "        # (a format with native dates hands them over as they are)\n")
        return src

    def boxed_in(self, t):
        return sorted({n[1] for n in tast.walk(t) if n[0] == "boxed"})

    def _render_enum(self, d):
        base = d["base"]
        if d.get("functional"):
            members = ", ".join(f"({n!r}, {v!r})" for n, v in d["members"])
            return (f"{d['name']} = enum.{base}({d['name']!r}, [{members}], "
                    f"module=__name__)\n")
        lines = [f"class {d['name']}(enum.{base}):"]
        for n, v in d["members"]:
            lines.append(f"    {n} = {v!r}")
        if d.get("missing_hook"):
            lines += ["    @classmethod", "    def _missing_(cls, value):",
                      "        if type(value) in (str, int) and value in ('garbage', 12, '12'):",
                      "            return list(cls)[0]", "        return None"]
        return "\n".join(lines) + "\n"

    def _defval(self, cls, fname, t, seed, value_maker, const=_NOCONST):
        key = f"{cls}.{fname}"
        v = value_maker(t, seed) if const is _NOCONST else const
        self.module._V[key] = v
        self.values[(cls, fname)] = v
        return f"_V[{key!r}]"

    def _render_nt(self, d, value_maker):
        if d.get("untyped"):
            return f"{d['name']} = collections.namedtuple({d['name']!r}, {[f['n'] for f in d['fields']]!r})\n"
        if d.get("functional"):
            fs = ", ".join(f"({f['n']!r}, {tast.render(f['t'])})" for f in d["fields"])
            return f"{d['name']} = NamedTuple({d['name']!r}, [{fs}])\n"
        lines = [f"class {d['name']}(NamedTuple):"]
        for f in d["fields"]:
            line = f"    {f['n']}: {tast.render(f['t'])}"
            if f.get("dseed") is not None:
                line += " = " + self._defval(d["name"], f["n"], f["t"], f["dseed"], value_maker)
            lines.append(line)
        return "\n".join(lines) + "\n"

    def _render_td(self, d):
        def ft(f):
            s = tast.render(f["t"])
            if f.get("ro"):
                s = f"ReadOnly[{s}]"        # a qualifier without effect on requiredness or conversion
            if f.get("q"):
                s = f"{f['q']}[{s}]"
            return s
        if d.get("functional"):
            fs = ", ".join(f"{f['n']!r}: {ft(f)}" for f in d["fields"])
            return (f"{d['name']} = TypedDict({d['name']!r}, {{{fs}}}, "
                    f"total={d.get('total', True)})\n")
        lines = [f"class {d['name']}({d.get('base') or 'TypedDict'}, total={d.get('total', True)}):"]
        own = [f for f in d["fields"] if not f.get("inherited")]
        for f in own:
            lines.append(f"    {f['n']}: {ft(f)}")
        if not own:
            lines.append("    pass")
        return "\n".join(lines) + "\n"

    def _render_dc(self, d, value_maker):
        need = set()
        for f in d["fields"]:
            if f.get("raw"):
                continue
            names = self.boxed_in(f["t"])
            if names and ("serialization_strategy" not in (f.get("meta") or {}) or f.get("boxed_de")):
                need.update(names)         # (a one-way field registration leaves serialization to the Config level)
        if need:
            cfg = dict(d.get("config") or {})
            cfg["serialization_strategy"] = "{" + ", ".join(f"{n}: {n}_S" for n in sorted(need)) + "}"
            d["config"] = cfg
        bases = list(d.get("bases", ()))
        if d.get("mixin"):
            bases.append(d["mixin"])
        if d.get("generic"):
            bases.append(f"Generic[{', '.join(d['generic'])}]")
        dc_args = d.get("dc_args") or getattr(self, "default_dc_args", None) or {}
        deco = "@dataclass"
        if dc_args:
            deco += "(" + ", ".join(f"{k}={v!r}" for k, v in dc_args.items()) + ")"
        head = f"class {d['name']}" + (f"({', '.join(bases)})" if bases else "") + ":"
        lines = [deco, head]
        body = []
        for f in d["fields"]:
            if f.get("raw"):
                body.append("    " + f["raw"])
                continue
            tsrc = tast.render_field(f["t"])
            if f.get("fwd"):
                tsrc = repr(tsrc)
            fargs = []
            if f.get("dmode") == "default":
                fargs.append("default=" + self._defval(d["name"], f["n"], f["t"], f["dseed"], value_maker, f.get("const_default", _NOCONST)))
            elif f.get("dmode") == "factory":
                ref = self._defval(d["name"], f["n"], f["t"], f["dseed"], value_maker, f.get("const_default", _NOCONST))
                # a factory returning a fresh deep copy each time
                fargs.append(f"default_factory=(lambda: _fresh({ref}))")
            meta = dict(f.get("meta") or {})
            if f.get("alias") is not None:
                meta["alias"] = repr(f["alias"])
            if meta:
                fargs.append("metadata=field_options(" + ", ".join(f"{k}={v}" for k, v in meta.items()) + ")")
            if f.get("init") is False:
                fargs.append("init=False")
            if f.get("kw_only") is not None:
                fargs.append(f"kw_only={f['kw_only']!r}")
            line = f"    {f['n']}: {tsrc}"
            if fargs:
                if (len(fargs) == 1 and fargs[0].startswith("default=")
                        and not f.get("force_field")):
                    line += " = " + fargs[0][len("default="):]
                else:
                    line += f" = field({', '.join(fargs)})"
            body.append(line)
        cfg = d.get("config") or {}
        if cfg:
            body.append("    class Config(BaseConfig):")
            for k, v in cfg.items():
                body.append(f"        {k} = {v}")
        for extra in d.get("body", ()):
            for ln in extra.splitlines():
                body.append("    " + ln)
        if not body:
            body.append("    pass")
        src = "\n".join(lines + body) + "\n"
        if d.get("local"):
            # define inside a function: '<locals>' qualname, not importable by name
            ind = "\n".join("    " + ln for ln in src.splitlines())
            src = (f"def _mk_{d['name']}():\n{ind}\n    return {d['name']}\n"
                   f"{d['name']} = _mk_{d['name']}()\n")
        return src

    # ------------------------------------------------------------ spec helpers
    def dc_fields(self, name, _seen=None):
        """all fields of a dataclass in dataclass order (bases first, overriding
        keeps the original position)."""
        d = self.defs[name]
        out = {}
        live = self.module.__dict__.get(name)
        if isinstance(live, type) and len(d.get("bases", ())) > 1:
            # several bases, the stdlib rule: every dataclass of the reversed MRO contributes its COMPLETE field table
            # (dataclasses reads each base's __dataclass_fields__ over __mro__[-1:0:-1]); the last one wins
            for c in live.__mro__[-1:0:-1]:
                cd = self.defs.get(c.__name__)
                if cd is None or cd.get("k") != "dc" or self.module.__dict__.get(c.__name__) is not c:
                    continue
                for f in self.dc_fields(c.__name__):
                    out[f["n"]] = f
        else:
            for b in d.get("bases", ()):
                bname = b.split("[")[0]
                if bname in self.defs and self.defs[bname]["k"] == "dc":
                    for f in self.dc_fields(bname):
                        out[f["n"]] = f
        for f in d["fields"]:
            if f.get("raw"):
                continue
            out[f["n"]] = f
        return list(out.values())

    def dc_config(self, name, opt, default=None):
        """Config option source as inherited through bases (class attribute lookup)."""
        d = self.defs[name]
        cfg = d.get("config") or {}
        if cfg:
            # an inner Config class replaces the parent's as a whole
            return cfg.get(opt, default)
        for b in d.get("bases", ()):
            bname = b.split("[")[0]
            if bname in self.defs and self.defs[bname]["k"] == "dc":
                v = self.dc_config(bname, opt, None)
                if v is not None:
                    return v
        return default

    def to_json(self):
        return {
            "modname": self.modname,
            "future_annotations": self.future,
            "source": "".join(self.sources[1:]),
        }
