"""Known-finding classifiers: mechanism predicates over a violation record
(its signature and the mechanism facts the check attached), never seeds/hashes."""
from __future__ import annotations

PREDICATES = {}


def predicate(fn):
    PREDICATES[fn.__name__] = fn
    return fn


@predicate
def union_copy_shortcut_wrong_member(v):
    """F20: union packer tries `value.copy()` of a conversion-free list/dict member on a
    value that belongs to a later container member of another kind; the elements stay
    unconverted."""
    f = v.get("facts", {})
    if bool(f.get("union_copy_shortcut")) and f.get("encoded_only_basic") is False:
        return True
    # the shallow .copy() of the wrong member also leaves the value's NESTED containers shared (C18), even when
    # nothing needed conversion (e.g. [[]] taken for a Dict[str, float])
    if bool(f.get("union_copy_shortcut")) and f.get("kind") == "extra-sharing":
        return True
    # general form of the same mechanism (C11): the union serializer takes the first member, in declaration
    # order, whose packer does not raise; a non-basic member declared before the value's own member got the value
    if bool(f.get("earlier_nonscalar_member_before_value_member")) and v.get("sig", "").startswith("encode:"):
        # where the union is the outermost node the observation must be EXACTLY the rendering by the first earlier member
        # whose packer does not raise (C11 computes that with the library's own packer of that member)
        return f.get("equals_blind_encoding_by_earlier_member") is not False
    # the same seen through a format codec (C04): the document is the rendering of the earlier member (e.g. a dataclass
    # member all of whose fields are constants accepts any object when called through a codec), or the routes differ
    if bool(f.get("earlier_nonscalar_member_before_value_member")) and (
            "document-differs-from-reference" in v.get("sig", "") or ":routes-disagree:" in v.get("sig", "")):
        return True
    # the same seen from a round trip (C01): the DOCUMENT already differs from the reference encoding of the value
    return bool(f.get("earlier_nonscalar_member_before_value_member")) and f.get("document_differs_from_reference_encoding") is True


@predicate
def union_none_fallback(v):
    """F02: a None member of a union with >= 2 other members contributes an
    always-succeeding fallback, so unaccepted input becomes None (pinned by
    tests/test_union.py)."""
    return v.get("facts", {}).get("explained_by") == "F02"


@predicate
def namedtuple_defaults_swallow_indexerror(v):
    """F24: NamedTuple with defaults: an IndexError raised inside a field's own
    conversion is taken for 'short input' and the remaining fields take defaults."""
    return v.get("facts", {}).get("explained_by") == "F24"


@predicate
def keyword_flag_default_shadows_call_dialect(v):
    """F25: class with TO_DICT_ADD_OMIT_NONE_FLAG / TO_DICT_ADD_BY_ALIAS_FLAG called with dialect=D and
    without the keyword: the outer method forwards its own compiled default for the flag, which
    overrides D.omit_none / D.serialize_by_alias."""
    return v.get("facts", {}).get("explained_by") == "F25"


@predicate
def codec_union_runs_member_hooks_speculatively(v):
    """F08: a codec (not a mixin) for a shape containing a union of dataclasses tries an earlier member's packer on
    an instance of a later member; __pre_serialize__ is dispatched on the instance, so it runs once more per failed
    attempt (never fewer times)."""
    f = v.get("facts", {})
    return bool(f.get("codec")) and bool(f.get("union_member_speculation")) and f.get("kind") == "count" and "serialize-trace" in v.get("sig", "")


@predicate
def schema_of_self_referencing_dataclass(v):
    """F16: build_json_schema has no in-progress marker / reference for a dataclass reachable from itself
    (directly, through a collection, mutually, or via Self): unbounded recursion (RecursionError), or TypeError for Self."""
    f = v.get("facts", {})
    return f.get("kind") == "recursive" and f.get("exc") in ("RecursionError", "TypeError")


@predicate
def schema_flag_enum_lists_members_only(v):
    """F09: the schema of a Flag / IntFlag lists the declared members only; combined values and 0 are rejected."""
    f = v.get("facts", {})
    return bool(f.get("has_flag_enum")) and bool(f.get("failed_on_enum_keyword")) and bool(f.get("instance_is_int"))


@predicate
def schema_omits_init_false_field(v):
    """F36: a dataclass field declared init=False is emitted by to_dict / encoders but left out of the object schema,
    whose additionalProperties is false."""
    f = v.get("facts", {})
    return f.get("keyword") == "additionalProperties" and bool(f.get("rejected_extras_are_all_init_false_fields"))


@predicate
def field_namedtuple_engine_shadows_format_dialect(v):
    """F45: field option serialize='as_dict' / 'as_list' travels with the spec into the NamedTuple's members, where
    get_overridden_serialization_method returns the engine string before any dialect strategy is consulted; a member
    of a type the format dialect passes through (bytes under msgpack, UUID / datetime under orjson ...) is then
    converted by the built-in rendering."""
    f = v.get("facts", {})
    return bool(f.get("field_engine_over_format_native")) and ("ref-mismatch" in v.get("sig", "") or "document-differs-from-reference" in v.get("sig", ""))


@predicate
def schema_property_names_typed_as_python_key(v):
    """F10: propertyNames of a mapping schema is the schema of the Python key type (integer, number, enum of ints, ...)
    although JSON object keys are always strings."""
    f = v.get("facts", {})
    return bool(f.get("failed_in_propertyNames")) and bool(f.get("has_non_string_map_key_type"))


@predicate
def schema_fixed_unpack_item_bounds(v):
    """F11: Tuple[A, Unpack[Tuple[B, C]], D]: maxItems is not incremented for the items of a fixed-size unpack
    (maxItems < minItems, unsatisfiable)."""
    f = v.get("facts", {})
    return bool(f.get("has_fixed_size_unpack")) and bool(f.get("failed_on_items_count"))


@predicate
def schema_definitions_keyed_by_bare_name(v):
    """F12: definitions are keyed by the bare class __name__: two distinct classes (or two specialisations of a generic
    dataclass) with the same name share one definition; the later one wins."""
    f = v.get("facts", {})
    return f.get("kind") in ("homonyms", "generic-twice") and f.get("all_refs") is True


HOMONYM_KINDS = ("local_dc", "local_enum", "functional_nt", "functional_td", "make_dataclass", "rebound")


@predicate
def class_referenced_by_qualified_name_not_identity(v):
    """F13: generated code refers to a schema class by its rendered name (`module.qualname`, or the sanitised
    local name registered with setdefault) instead of the class object: distinct classes with the same rendered
    name (two locals of one factory, functional NamedTuple/TypedDict/make_dataclass homonyms, a re-bound module
    attribute) or classes whose name is not bound in their module resolve to the wrong class or to nothing."""
    f = v.get("facts", {})
    return f.get("monitor") in ("identity", "closure") and f.get("kind") in HOMONYM_KINDS


@predicate
def bound_typevar_nullable_except_at_codec_root(v):
    """F35: a bound TypeVar is treated as Optional[bound] in field and nested positions but not when it is the root
    shape of a codec: null is accepted everywhere except by BasicDecoder(T) / decode(None, T) themselves."""
    f = v.get("facts", {})
    return (f.get("type_kinds") == ["tv"] and f.get("input_is_none") is True and v.get("sig", "").startswith("decode-disagree")
            and "raise->ok" in v.get("sig", ""))


_PINNED = {}


def _pinned_inputs(fid):
    if fid not in _PINNED:
        import json
        import os
        path = os.path.join(os.path.dirname(os.path.dirname(os.path.abspath(__file__))), "known_findings.json")
        _PINNED[fid] = next((set(k.get("inputs", ())) for k in json.load(open(path)).get("findings", []) if k.get("id") == fid), set())
    return _PINNED[fid]


@predicate
def user_module_named_like_a_pinned_global_of_the_code_generator(v):
    """F50: a user's top-level module whose name equals a global of the code generator's module is shadowed in the
    generated namespace. Known for the names pinned in known_findings.json only (specific inputs)."""
    f = v.get("facts", {})
    return f.get("scenario") == "module-name" and f.get("module_name") in _pinned_inputs("F50")


@predicate
def user_module_named_like_a_pinned_local_of_generated_code(v):
    """F51: a user's top-level module whose name equals a parameter / local variable of the generated functions is shadowed
    there. Known for the names pinned in known_findings.json only (specific inputs)."""
    f = v.get("facts", {})
    return f.get("scenario") == "module-name" and f.get("module_name") in _pinned_inputs("F51")


@predicate
def codecs_write_nested_instances_by_the_declared_class(v):
    """F56: a codec calls the packer compiled for the DECLARED class of a nested dataclass member (kept in the codec's own
    holder), the mixin methods call the instance's own to_dict: an instance of a subclass in a parent-typed member keeps its
    own members through to_dict and loses them through every codec."""
    f = v.get("facts", {})
    return (f.get("scenario") == "subclass-instance-in-parent-typed-member" and f.get("members_are_mixin_classes") is True
            and f.get("only_difference_is_subclass_members_dropped_by_codecs") is True)


@predicate
def recursive_union_with_alias_of_union_member_cannot_be_written(v):
    """F57: `type Num = int | float; type Tree = Num | list[Tree]`: the field keeps ONE recursion target for its union packers;
    the inner union behind the alias is compiled while the outer one is the target, so scalars are refused on to_dict
    (InvalidFieldValue / ValueError), although from_dict reads the same documents."""
    f = v.get("facts", {})
    return f.get("scenario") == "special-D" and f.get("recursive_alias_with_alias_of_union_member") is True and f.get("exc") in ("InvalidFieldValue", "ValueError")
