"""Known-finding classifiers: mechanism predicates over a violation record
(its signature and the mechanism facts the check attached), never seeds/hashes."""
from __future__ import annotations

PREDICATES = {}


def predicate(fn):
    PREDICATES[fn.__name__] = fn
    return fn


@predicate
def union_copy_shortcut_wrong_member(v):
    """F20: union packer tries `value.copy()` of a conversion-free list/dict member on a
    value that belongs to a later container member of another kind; the elements stay
    unconverted."""
    f = v.get("facts", {})
    if bool(f.get("union_copy_shortcut")) and f.get("encoded_only_basic") is False:
        return True
    # general form of the same mechanism (C11): the union serializer takes the first member, in declaration
    # order, whose packer does not raise; a non-basic member declared before the value's own member got the value
    return bool(f.get("earlier_nonscalar_member_before_value_member")) and v.get("sig", "").startswith("encode:")


@predicate
def union_none_fallback(v):
    """F02: a None member of a union with >= 2 other members contributes an
    always-succeeding fallback, so unaccepted input becomes None (pinned by
    tests/test_union.py)."""
    return v.get("facts", {}).get("explained_by") == "F02"


@predicate
def namedtuple_defaults_swallow_indexerror(v):
    """F24: NamedTuple with defaults: an IndexError raised inside a field's own
    conversion is taken for 'short input' and the remaining fields take defaults."""
    return v.get("facts", {}).get("explained_by") == "F24"


@predicate
def keyword_flag_default_shadows_call_dialect(v):
    """F25: class with TO_DICT_ADD_OMIT_NONE_FLAG / TO_DICT_ADD_BY_ALIAS_FLAG called with dialect=D and
    without the keyword: the outer method forwards its own compiled default for the flag, which
    overrides D.omit_none / D.serialize_by_alias."""
    return v.get("facts", {}).get("explained_by") == "F25"


@predicate
def codec_union_runs_member_hooks_speculatively(v):
    """F08: a codec (not a mixin) for a shape containing a union of dataclasses tries an earlier member's packer on
    an instance of a later member; __pre_serialize__ is dispatched on the instance, so it runs once more per failed
    attempt (never fewer times)."""
    f = v.get("facts", {})
    return bool(f.get("codec")) and bool(f.get("union_member_speculation")) and f.get("kind") == "count" and "serialize-trace" in v.get("sig", "")


@predicate
def schema_of_self_referencing_dataclass(v):
    """F16: build_json_schema has no in-progress marker / reference for a dataclass reachable from itself
    (directly, through a collection, mutually, or via Self): unbounded recursion (RecursionError), or TypeError for Self."""
    f = v.get("facts", {})
    return f.get("kind") == "recursive" and f.get("exc") in ("RecursionError", "TypeError")
