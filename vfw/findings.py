"""Known-finding classifiers: mechanism predicates over a violation record
(its signature and the mechanism facts the check attached), never seeds/hashes."""
from __future__ import annotations

PREDICATES = {}


def predicate(fn):
    PREDICATES[fn.__name__] = fn
    return fn


@predicate
def union_copy_shortcut_wrong_member(v):
    """F20: union packer tries `value.copy()` of a conversion-free list/dict member on a
    value that belongs to a later container member of another kind; the elements stay
    unconverted."""
    f = v.get("facts", {})
    return bool(f.get("union_copy_shortcut")) and f.get("encoded_only_basic") is False
