"""Known-finding classifiers: mechanism predicates over a violation record
(its signature and the mechanism facts the check attached), never seeds/hashes."""
from __future__ import annotations

PREDICATES = {}


def predicate(fn):
    PREDICATES[fn.__name__] = fn
    return fn


@predicate
def union_copy_shortcut_wrong_member(v):
    """F20: union packer tries `value.copy()` of a conversion-free list/dict member on a
    value that belongs to a later container member of another kind; the elements stay
    unconverted."""
    f = v.get("facts", {})
    if bool(f.get("union_copy_shortcut")) and f.get("encoded_only_basic") is False:
        return True
    # general form of the same mechanism (C11): the union serializer takes the first member, in declaration
    # order, whose packer does not raise; a non-basic member declared before the value's own member got the value
    return bool(f.get("earlier_nonscalar_member_before_value_member")) and v.get("sig", "").startswith("encode:")


@predicate
def union_none_fallback(v):
    """F02: a None member of a union with >= 2 other members contributes an
    always-succeeding fallback, so unaccepted input becomes None (pinned by
    tests/test_union.py)."""
    return v.get("facts", {}).get("explained_by") == "F02"


@predicate
def namedtuple_defaults_swallow_indexerror(v):
    """F24: NamedTuple with defaults: an IndexError raised inside a field's own
    conversion is taken for 'short input' and the remaining fields take defaults."""
    return v.get("facts", {}).get("explained_by") == "F24"


@predicate
def keyword_flag_default_shadows_call_dialect(v):
    """F25: class with TO_DICT_ADD_OMIT_NONE_FLAG / TO_DICT_ADD_BY_ALIAS_FLAG called with dialect=D and
    without the keyword: the outer method forwards its own compiled default for the flag, which
    overrides D.omit_none / D.serialize_by_alias."""
    return v.get("facts", {}).get("explained_by") == "F25"


@predicate
def format_method_mutual_recursion(v):
    """F07: two classes on a non-dict format mixin that reference each other, one of them also referencing itself:
    the secondary `to_dict_<format>` / `from_dict_<format>` method of a class is rebuilt while it is already being
    built when reached again through the other class -> RecursionError (at class creation or on the first call)."""
    f = v.get("facts", {})
    ft = f.get("features") or {}
    return (f.get("kind") == "RecursionError" and bool(ft.get("cycle")) and bool(ft.get("self_ref"))
            and ft.get("mixin") in ("orjson", "msgpack", "orjson+msgpack"))


HOMONYM_KINDS = ("local_dc", "local_enum", "functional_nt", "functional_td", "make_dataclass", "rebound")


@predicate
def class_referenced_by_qualified_name_not_identity(v):
    """F13: generated code refers to a schema class by its rendered name (`module.qualname`, or the sanitised
    local name registered with setdefault) instead of the class object: distinct classes with the same rendered
    name (two locals of one factory, functional NamedTuple/TypedDict/make_dataclass homonyms, a re-bound module
    attribute) or classes whose name is not bound in their module resolve to the wrong class or to nothing."""
    f = v.get("facts", {})
    return f.get("monitor") in ("identity", "closure") and f.get("kind") in HOMONYM_KINDS
