"""Seeded generators of type ASTs and class families."""
from __future__ import annotations

import random

from . import tast
from .family import Family
from .values import Gen

SCALARS = (
    [("int",), ("float",), ("bool",), ("str",), ("bytes",), ("bytearray",),
     ("datetime",), ("date",), ("time",), ("timedelta",), ("timezone",),
     ("zoneinfo",), ("uuid",), ("decimal",), ("fraction",), ("pattern",), ("none",)]
    + [("ip", c) for c in tast.IP_CLASSES]
    + [("path", c) for c in tast.PATH_CLASSES]
)
# key types whose wire form is hashable and survives as a dict key
KEY_SCALARS = [
    ("int",), ("float",), ("bool",), ("str",), ("date",), ("datetime",), ("time",),
    ("uuid",), ("decimal",), ("fraction",), ("ip", "IPv4Address"), ("ip", "IPv6Network"),
    ("path", "PurePosixPath"), ("timedelta",), ("timezone",),
]
HASHABLE_SCALARS = KEY_SCALARS + [("bytes",), ("path", "PosixPath"), ("zoneinfo",)]

ENUM_BASES = ["Enum", "IntEnum", "StrEnum", "Flag", "IntFlag"]


class TypeGen:
    """random type ASTs; named classes are added to the family as they are made."""

    def __init__(self, fam: Family, rng: random.Random, *, mixin_prob=0.5,
                 allow_any=True, allow_pattern=True, allow_union=True,
                 allow_literal=True, allow_named=True, schema_only=False,
                 dc_config_fn=None, mixins=("DataClassDictMixin",), allow_utuple=True,
                 allow_generic=True, allow_none_scalar=True):
        self.fam = fam
        self.rng = rng
        self.n = 0
        self.mixin_prob = mixin_prob
        self.allow_any = allow_any
        self.allow_pattern = allow_pattern
        self.allow_union = allow_union
        self.allow_literal = allow_literal
        self.allow_named = allow_named
        self.allow_utuple = allow_utuple
        self.allow_generic = allow_generic
        self.allow_none_scalar = allow_none_scalar
        self.lit_conflate = False
        self.allow_self = True
        self.allow_inherit = True
        self.allow_field_engine = True
        self.allow_stype = not schema_only
        self.allow_talias = True
        self.allow_boxed = not schema_only
        self.boxed_prob = 0.07
        self.shuffled_names = True       # own fields a0 / e1 / u2 ...: declaration order differs from sorted order
        self.dc_config_fn = dc_config_fn
        self.mixins = mixins
        self.vgen = Gen(fam, rng)
        self._enums = []

    def fresh(self, prefix):
        self.n += 1
        return f"{prefix}{self.n}"

    def value_maker(self, t, seed):
        g = Gen(self.fam, random.Random(seed))
        return g.value(t, 2)

    # ------------------------------------------------------------ leaves
    def scalar(self):
        r = self.rng
        while True:
            t = r.choice(SCALARS)
            if t == ("pattern",) and not self.allow_pattern:
                continue
            if t == ("none",) and not self.allow_none_scalar:
                continue
            return t

    def enum(self, base=None):
        r = self.rng
        if self._enums and r.random() < 0.5 and base is None:
            return r.choice(self._enums)
        base = base or r.choice(ENUM_BASES)
        name = self.fresh("E")
        if base == "Enum":
            members = r.choice([[("A", "a"), ("B", "b")], [("A", 1), ("B", "x"), ("C", 2.5)],
                                [("A", 1), ("B", 2)]])
        elif base == "IntEnum":
            members = [("ONE", 1), ("TWO", 2), ("NEG", -3)]
        elif base == "StrEnum":
            members = [("A", "a"), ("B", "b b"), ("C", "")]
        else:
            members = [("R", 1), ("W", 2), ("X", 4)]
        functional = r.random() < 0.2
        # a user _missing_ hook: values the class itself maps to a member are valid inputs (the junk pool holds them)
        hook = (not functional) and base in ("Enum", "IntEnum", "StrEnum") and r.random() < 0.2
        self.fam.add({"k": "enum", "name": name, "base": base, "members": members,
                      "functional": functional, "missing_hook": hook})
        t = ("enum", name)
        self._enums.append(t)
        return t

    def key_type(self, depth):
        r = self.rng
        x = r.random()
        if x < 0.8:
            return r.choice(KEY_SCALARS)
        if x < 0.9:
            base = r.choice(["Enum", "IntEnum", "StrEnum"])
            return self.enum(base)
        if x < 0.95:
            return r.choice(KEY_SCALARS)
        return ("lit", (("s", "k1"), ("s", "k2")))

    def hashable_type(self, depth):
        r = self.rng
        x = r.random()
        if x < 0.75 or depth <= 0:
            return r.choice(HASHABLE_SCALARS)
        if x < 0.85:
            return self.enum()
        if x < 0.93:
            return ("vtuple", r.choice(["Tuple", "tuple"]), r.choice(HASHABLE_SCALARS))
        return ("seq", r.choice(["FrozenSet", "frozenset"]), r.choice(HASHABLE_SCALARS))

    # ------------------------------------------------------------ any type
    def type(self, depth):
        r = self.rng
        if depth <= 0:
            x = r.random()
            if x < 0.8:
                return self.scalar()
            if x < 0.92:
                return self.enum()
            if self.allow_any and x < 0.96:
                return ("any",)
            if self.allow_literal:
                return self.literal()
            return self.scalar()
        x = r.random()
        if x < 0.17:
            return self.scalar()
        if x < 0.20:
            return self.enum()
        if x < 0.34:
            sp = r.choice(list(tast.SEQ_SPELLINGS))
            kind = tast.SEQ_SPELLINGS[sp][1]
            el = self.hashable_type(depth - 1) if kind in ("set", "frozenset") else self.type(depth - 1)
            return ("seq", sp, el)
        if x < 0.47:
            sp = r.choice(list(tast.MAP_SPELLINGS))
            return ("map", sp, self.key_type(depth - 1), self.type(depth - 1))
        if x < 0.50:
            return ("counter", r.choice(list(tast.COUNTER_SPELLINGS)), self.key_type(depth - 1))
        if x < 0.53:
            return ("chainmap", r.choice(list(tast.CHAINMAP_SPELLINGS)), self.key_type(depth - 1), self.type(depth - 1))
        if x < 0.62:
            sp = r.choice(["Tuple", "tuple"])
            y = r.random()
            if y < 0.35:
                return ("vtuple", sp, self.type(depth - 1))
            if y < 0.42:
                return ("tuple", sp, ())
            if y < 0.52 and self.allow_utuple:
                return self.utuple(sp, depth)
            return ("tuple", sp, tuple(self.type(depth - 1) for _ in range(r.randint(1, 3))))
        if x < 0.70:
            inner = self.type(depth - 1)
            if tast.strip(inner)[0] in ("opt", "none", "any"):
                return inner
            if tast.strip(inner)[0] == "union":
                return inner
            return ("opt", inner, r.choice(["Optional", "Optional", "pipe", "union", "union_first"])
                    if self._pipe_ok(inner) else "Optional")
        if x < 0.75 and self.allow_union:
            return self.union(depth)
        if x < 0.78 and self.allow_literal:
            return self.literal()
        if x < 0.81 and self.allow_any:
            return ("any",)
        if not self.allow_named:
            return self.scalar()
        if x < 0.82 and self.allow_stype:
            return self.serializable_type()
        if x < 0.86:
            return self.named_tuple(depth - 1)
        if x < 0.91:
            return self.typed_dict(depth - 1)
        if x < 0.93:
            name = self.fresh("NTy")
            inner = self.type(depth - 1)
            if tast.strip(inner)[0] in ("opt", "union", "any", "none", "lit", "td", "tv"):
                return inner   # NewType needs a class-like supertype
            self.fam.add({"k": "newtype", "name": name, "t": inner})
            return ("newtype", name, inner)
        if x < 0.938 and self.allow_talias:
            name = self.fresh("TA")
            inner = self.type(depth - 1)
            self.fam.add({"k": "talias", "name": name, "t": inner})
            return ("talias", name, inner)
        if x < 0.945:
            return ("ann", self.type(depth - 1), (repr("tag"),))
        if x < 0.957 and self.allow_generic:
            return self.generic_dc(depth - 1)
        if x < 0.967 and self.allow_generic:
            return self.type_var()
        return self.dataclass(depth - 1)

    @staticmethod
    def _pipe_ok(t):
        # `X | None` needs a real class / generic alias on the left at runtime
        return t[0] not in ("lit", "ann", "newtype", "any", "td", "talias")

    def utuple(self, sp, depth):
        r = self.rng
        pre = tuple(self.type(depth - 1) for _ in range(r.randint(0, 2)))
        post = tuple(self.type(depth - 1) for _ in range(r.randint(0, 2)))
        if r.random() < 0.6:
            mid = ("vtuple", sp, self.type(depth - 1))
        else:
            mid = ("tuple", sp, tuple(self.type(depth - 1) for _ in range(r.randint(1, 2))))
        return ("utuple", sp, pre, mid, post)

    def literal(self):
        r = self.rng
        pool = [("s", "a"), ("s", "b c"), ("s", ""), ("s", "1"), ("i", 1), ("i", 0), ("i", -7),
                ("b", True), ("b", False), ("n",), ("y", "xy"), ("y", "\xff\x00")]
        n = r.randint(1, 4)
        consts = []
        for c in r.sample(pool, n):
            # True/1 and False/0 are distinct literals for typing but equal for ==;
            # such literals "share a wire form" and are only generated on request (C11)
            if not self.lit_conflate and any(k[0] in "ib" and c[0] in "ib" and k[0] != c[0] and k[1] == c[1] for k in consts):
                continue
            consts.append(c)
        if r.random() < 0.3:
            e = self.enum(r.choice(["Enum", "IntEnum", "StrEnum"]))
            member, mval = self.fam.defs[e[1]]["members"][0]
            # an enum member whose value equals a listed plain constant shares its wire form
            # (an enum member equal to a listed plain constant shares its wire form: never generated)
            if not any(c[0] in "sib" and c[1] == mval for c in consts):
                consts.append(("e", e[1], member))
        return ("lit", tuple(consts))

    def union(self, depth, allow_shared_wire=False):
        """union whose members have pairwise distinguishable wire forms (the
        'shared wire form' unions are excluded from round-trip properties; C11 has
        its own generator that includes them)."""
        r = self.rng
        groups = [
            [("int",)], [("str",)], [("float",)], [("bool",)], [("none",)],
            ["list"], ["dict"], ["dc"],
        ]
        # declaration order scalars -> mappings -> sequences keeps the wire forms
        # unambiguous (a str is iterable, a dict is iterable: a list member declared
        # first would swallow them)
        n = r.randint(2, 4)
        chosen = set(r.sample(range(len(groups)), n))
        members = []
        order = [0, 1, 2, 3, 4, 7, 6, 5]
        for gi in order:
            if gi not in chosen:
                continue
            m = groups[gi][0]
            if m == "list":
                members.append(("seq", r.choice(["List", "list"]), self.type(max(depth - 2, 0)) if depth > 1 else r.choice([("int",), ("str",), ("date",)])))
            elif m == "dict":
                members.append(("map", r.choice(["Dict", "dict"]), ("str",), r.choice([("int",), ("str",), ("float",)])))
            elif m == "dc":
                if not self.allow_named:
                    continue
                members.append(self.dataclass(max(depth - 2, 0), min_required=1))
            else:
                members.append(m)
        if len(members) < 2:
            members = [("int",), ("str",)]
        # dict-member and dataclass-member share the mapping wire form: keep one
        if any(m[0] == "map" for m in members) and any(m[0] == "dc" for m in members):
            members = [m for m in members if m[0] != "map"]
            if len(members) < 2:
                members.append(("str",))
        return ("union", tuple(members), "pipe" if r.random() < 0.2 and all(m[0] != "none" or True for m in members) and self._all_pipe_ok(members) else "Union")

    def _all_pipe_ok(self, members):
        return all(self._pipe_ok(m) for m in members) and members[0] != ("none",)

    # ------------------------------------------------------------ generics
    def type_var(self):
        """a TypeVar used directly as a field type: constrained (acts as a union) or bound (acts as Optional[bound])."""
        r = self.rng
        name = self.fresh("TV")
        if r.random() < 0.6:
            cons = r.choice([[("int",), ("str",)], [("float",), ("str",)], [("str",), ("seq", "List", ("int",))], [("bool",), ("date",)]])
            self.fam.add({"k": "typevar", "name": name, "constraints": cons})
        else:
            self.fam.add({"k": "typevar", "name": name, "bound": r.choice([("int",), ("date",), ("decimal",), ("seq", "List", ("str",))])})
        return ("tv", name)

    def generic_dc(self, depth):
        """a generic dataclass Generic[T] used as a specialisation G[arg]."""
        r = self.rng
        tvn = self.fresh("T")
        self.fam.add({"k": "typevar", "name": tvn})
        name = self.fresh("G")
        fields = [{"n": "x", "t": ("tv", tvn)},
                  {"n": "xs", "t": ("seq", r.choice(["List", "list"]), ("tv", tvn)), "dmode": "factory", "dseed": 0, "const_default": []},
                  {"n": "o", "t": ("opt", ("tv", tvn), "Optional"), "dmode": "default", "dseed": 0, "const_default": None}]
        if r.random() < 0.4:
            fields.insert(1, {"n": "m", "t": ("map", "Dict", ("str",), ("tv", tvn)), "dmode": "factory", "dseed": 0, "const_default": {}})
        mixin = r.choice(self.mixins) if r.random() < self.mixin_prob else None
        d = {"k": "dc", "name": name, "bases": [], "mixin": mixin, "generic": [tvn], "fields": fields}
        cfg = self.dc_config_fn(r) if self.dc_config_fn else None
        if cfg:
            cfg = dict(cfg)
            cfg.pop("_aliases", None)
            d["config"] = cfg
        self.fam.add(d, self.value_maker)
        while True:
            arg = self.scalar() if r.random() < 0.7 else (self.enum() if r.random() < 0.5 else self.dataclass(max(depth - 1, 0)))
            if arg == ("none",) or (arg == ("pattern",) and not self.allow_pattern):
                continue
            break
        return ("gdc", name, (arg,))

    # ------------------------------------------------------------ named
    def serializable_type(self):
        name = self.fresh("ST")
        self.fam.add({"k": "stype", "name": name, "flavour": self.rng.choice(["plain", "annotations", "annotations-list"])})
        return ("stype", name)

    def named_tuple(self, depth):
        r = self.rng
        name = self.fresh("NT")
        if getattr(self, "allow_any", False) and r.random() < 0.08:
            # collections.namedtuple: no annotations at all, every member is opaque
            fields = [{"n": f"f{i}", "t": ("any",)} for i in range(r.randint(1, 3))]
            self.fam.add({"k": "nt", "name": name, "fields": fields, "functional": False, "untyped": True}, self.value_maker)
            return ("nt", name)
        fields = []
        defaults_started = False
        for i in range(r.randint(1, 3)):
            t = self.type(depth)
            f = {"n": f"f{i}", "t": t}
            if defaults_started or r.random() < 0.2:
                defaults_started = True
                f["dseed"] = r.getrandbits(32)
            fields.append(f)
        functional = r.random() < 0.2 and not defaults_started
        self.fam.add({"k": "nt", "name": name, "fields": fields, "functional": functional}, self.value_maker)
        return ("nt", name)

    def typed_dict(self, depth):
        r = self.rng
        name = self.fresh("TD")
        fields = []
        for i in range(r.randint(1, 3)):
            q = r.choice([None, None, None, "Required", "NotRequired"])
            fields.append({"n": f"k{i}", "t": self.type(depth), "q": q})
            if r.random() < 0.15:
                fields[-1]["ro"] = True
        functional = r.random() < 0.2
        if self.fam.future and any(f["q"] or f.get("ro") for f in fields):
            # class syntax + PEP 563 hides Required/NotRequired from typing itself
            functional = True
        total = r.random() < 0.8
        self.fam.add({"k": "td", "name": name, "total": total, "fields": fields,
                      "functional": functional})
        if not functional and r.random() < 0.25:
            # a TypedDict extending it with the OTHER totality: an inherited key keeps the requiredness it had in
            # the class that declared it (listed here with an explicit qualifier, not rendered again)
            child = self.fresh("TD")
            inherited = [dict(f, q=f["q"] or ("Required" if total else "NotRequired"), inherited=True, ro=False) for f in fields]
            # (under PEP 563 class syntax cannot show qualifiers to typing: there the totality of the declaring class decides alone)
            own = [{"n": f"c{i}", "t": self.type(depth), "q": None if self.fam.future else r.choice([None, None, "Required", "NotRequired"])} for i in range(r.randint(1, 2))]
            self.fam.add({"k": "td", "name": child, "total": not total, "fields": inherited + own, "functional": False, "base": name})
            return ("td", child)
        return ("td", name)

    def dataclass(self, depth, *, mixin=None, min_required=0, config=None, nfields=None,
                  with_defaults=True, name=None):
        r = self.rng
        if (self.allow_field_engine and self.allow_named and nfields is None and name is None and config is None
                and with_defaults and min_required == 0 and r.random() < 0.04):
            return self.nt_engine_dataclass(mixin)
        name = name or self.fresh("DC")
        n = nfields if nfields is not None else r.randint(1, 4)
        fields = []
        defaults_started = False
        if mixin is None:
            mixin = r.choice(self.mixins) if r.random() < self.mixin_prob else None
        bases = []
        cfg = config if config is not None else (self.dc_config_fn(r) if self.dc_config_fn else None)
        # aliases carried by field metadata of an ancestor survive a Config of the leaf: only where the leaf's own Config keeps
        # reading and writing consistent (by alias, or names accepted next to aliases)
        alias_ok = bool(cfg) and (cfg.get("serialize_by_alias") == "True" or cfg.get("allow_deserialization_not_by_alias") == "True")
        if self.allow_inherit and nfields is None and with_defaults and min_required == 0 and r.random() < 0.2:
            bases, over = self._hierarchy(depth, mixin, alias_ok)
            mixin = None            # inherited from the root
            fields.extend(over)
            defaults_started = True
        if self.allow_inherit and r.random() < 0.08:
            # a member that is not a constructor parameter: serialized, never read from the input
            fields_tail = [{"n": "ni", "t": r.choice([("int",), ("str",), ("date",)]), "dmode": "default", "dseed": r.getrandbits(32), "init": False}]
        else:
            fields_tail = []
        for i in range(n):
            t = self.type(depth)
            f = {"n": f"{r.choice('aeu') if self.shuffled_names else 'a'}{i}", "t": t}
            need_default = defaults_started
            if with_defaults and i >= min_required and (need_default or r.random() < 0.3):
                defaults_started = True
                f["dmode"] = r.choice(["default", "factory"])
                f["dseed"] = r.getrandbits(32)
            fields.append(f)
        if self.allow_boxed and nfields is None and r.random() < self.boxed_prob:
            # a member of a class only a registered SerializationStrategy can (de)serialize
            bname = self.fresh("BX")
            self.fam.add({"k": "boxed", "name": bname, "flavour": r.choice(["plain", "dict", "annotated", "annotated", "annotated-sub", "annotated-sub"])})
            B = ("boxed", bname)
            shape = r.choice([B, B, ("opt", B, "Optional"), ("seq", "List", B), ("map", "Dict", ("str",), B), ("tuple", "Tuple", (B, ("int",)))])
            f = {"n": "bx", "t": shape}
            x = r.random()
            if shape == B and x < 0.35:
                f["meta"] = {"serialization_strategy": f"{bname}_S"}        # registered on the field instead of the Config
            elif shape == B and x < 0.6:
                # one-way on the field (deserialize only): serialization falls through to the Config-level registration
                f["meta"] = {"serialization_strategy": f"{{'deserialize': {bname}_DE}}"}
                f["boxed_de"] = bname
            if defaults_started or r.random() < 0.3:
                f.update(dmode="factory", dseed=r.getrandbits(32))
            fields.append(f)
        fields += fields_tail
        if self.allow_field_engine:
            # per-field NamedTuple engine (overrides Config / dialect namedtuple_as_dict for this field only)
            for f in fields:
                if "meta" not in f and r.random() < 0.3 and any(n[0] == "nt" for n in tast.walk(f["t"])) and self._engine_safe(f["t"]):
                    eng = r.choice(["'as_dict'", "'as_list'"])
                    f["meta"] = {"serialize": eng, "deserialize": eng}
        if self.allow_self and r.random() < 0.12:
            # recursive field typed Self (always defaulted so instances terminate)
            if r.random() < 0.5:
                fields.append({"n": "nxt", "t": ("opt", ("self",), "Optional"), "dmode": "default", "dseed": 0, "const_default": None})
            else:
                fields.append({"n": "kids", "t": ("seq", r.choice(["List", "list"]), ("self",)), "dmode": "factory", "dseed": 0, "const_default": []})
        d = {"k": "dc", "name": name, "bases": bases, "mixin": mixin, "fields": fields}
        if cfg:
            cfg = dict(cfg)
            alias_mode = cfg.pop("_aliases", None)
            if alias_mode:
                for i, f in enumerate(fields):
                    x = r.random()
                    if x < 0.4:
                        f["alias"] = r.choice([f"AL{i}", f"al-{i}", f"a{i} x", f"Ä{i}"])
                    elif x < 0.55:
                        cfg.setdefault("_cfg_aliases", {})[f["n"]] = f"CF{i}"
                    elif x < 0.65 and f["t"][0] not in ("ann",):
                        f["t"] = ("ann", f["t"], (f"Alias({'AN%d' % i!r})",))
            ca = cfg.pop("_cfg_aliases", None)
            if ca:
                cfg["aliases"] = repr(ca)
            d["config"] = cfg
        self._fix_defaults(d)
        self.fam.add(d, self.value_maker)
        return ("dc", name)

    def _hierarchy(self, depth, mixin, alias_ok=False):
        """ancestors of a dataclass: a root with required and defaulted fields, then a chain of one or two classes or a
        diamond (Left(Root), Right(Root)); every ancestor may re-declare inherited defaulted fields with another default
        (plain or through field()), turn the last required field into a defaulted one, and add defaulted fields of its
        own.  Returns (bases of the leaf, fields the leaf itself re-declares)."""
        r = self.rng
        root = self.fresh("B")
        nreq = r.randint(0, 2)
        rfields = [{"n": f"{r.choice('qz')}{i}", "t": self.type(depth)} for i in range(nreq)]

        def defaulted(n, t=None, old=None):
            if t is None:
                t = self.type(depth)
                if r.random() < 0.5 and t[0] not in ("opt", "none", "any"):
                    t = ("opt", t, "Optional")
            f = {"n": n, "t": t, "dmode": r.choice(["default", "factory"]), "dseed": r.getrandbits(32)}
            if t[0] == "opt" and old is not None and old.get("const_default", 0) is None:
                # inherited default None re-declared with a value
                v = self.value_maker(t[1], f["dseed"])
                f.update(dmode="factory" if type(v).__hash__ is None else "default", const_default=v)
            elif t[0] == "opt" and r.random() < 0.5:
                f.update(dmode="default", const_default=None)
            if r.random() < 0.2:
                f["force_field"] = True
            return f
        rfields += [defaulted(f"d{i}") for i in range(r.randint(1, 3))]
        if alias_ok and r.random() < 0.5:
            # options carried by the ROOT's declaration of a member (an alias in its field metadata): a later class that
            # re-declares the member plainly drops them, for itself and for every class below it
            for f in rfields:
                if f.get("dmode") and r.random() < 0.6:
                    f["alias"] = "RM_" + f["n"]
        d = {"k": "dc", "name": root, "bases": [], "mixin": mixin, "fields": rfields}
        if r.random() < 0.3:
            # the ROOT carries a Config of its own (aliases for its members, written by alias): a descendant that declares
            # its own Config replaces it as a whole, one that declares none inherits it
            d["config"] = {"aliases": repr({f["n"]: "RA_" + f["n"] for f in rfields if r.random() < 0.7}), "serialize_by_alias": "True"}
        self._fix_defaults(d)
        self.fam.add(d, self.value_maker)
        inherited = {f["n"]: f for f in rfields}

        def redeclare(known, p):
            out = []
            last_req = [f for f in known.values() if not f.get("dmode")][-1:]
            for f in list(known.values()):
                if f.get("dmode") and r.random() < p:
                    out.append(defaulted(f["n"], f["t"], f))
                elif last_req and f is last_req[0] and r.random() < p / 2:
                    out.append(defaulted(f["n"], f["t"], f))
            return out

        def middle(prefix, base, known):
            name = self.fresh(prefix)
            fs = redeclare(known, 0.4) + [defaulted(f"{prefix.lower()}{i}") for i in range(r.randint(0, 1))]
            d = {"k": "dc", "name": name, "bases": [base], "mixin": None, "fields": fs}
            self._fix_defaults(d)
            self.fam.add(d, self.value_maker)
            return name, fs
        shape = r.choice(["chain1", "chain2", "chain2", "chain3", "diamond", "diamond"])
        if shape == "chain1":
            bases = [root]
        elif shape in ("chain2", "chain3"):
            name, fs = middle("M", root, inherited)
            inherited.update({f["n"]: f for f in fs})
            if shape == "chain3":
                name, fs = middle("N", name, inherited)
                inherited.update({f["n"]: f for f in fs})
            bases = [name]
        else:
            lname, lfs = middle("L", root, inherited)
            rname, rfs = middle("R", root, inherited)
            # MRO leaf, L, R, root: a field re-declared by both comes from L
            # (dataclasses reads each base's complete field table over the reversed MRO, so L's view - its own
            # re-declarations or else the root's members - replaces whatever R re-declared)
            rootd = dict(inherited)
            inherited = dict(rootd)
            inherited.update({f["n"]: f for f in rfs})
            inherited.update(rootd)
            inherited.update({f["n"]: f for f in lfs})
            bases = [lname, rname]
        return bases, redeclare(inherited, 0.3)

    def nullable_fixed_tuple(self):
        """Optional[Tuple[Optional[A], B, ...]]: a nullable position holding a fixed-shape tuple with nullable members."""
        r = self.rng
        def member():
            m = r.choice([("float",), ("int",), ("str",), ("date",), ("decimal",), ("uuid",)])
            return ("opt", m, "Optional") if r.random() < 0.7 else m
        inner = ("tuple", r.choice(["Tuple", "tuple"]), [member() for _ in range(r.randint(1, 3))])
        return ("opt", inner, "Optional")

    def nt_engine_dataclass(self, mixin=None):
        """one point of the lattice {Config.namedtuple_as_dict unset / True} x {field engine none / as_list / as_dict}
        with the NamedTuple at every kind of position (direct, Optional, list element, dict value, tuple member)."""
        r = self.rng
        nt = self.fresh("NT")
        members = [{"n": "f0", "t": ("int",)}, {"n": "f1", "t": r.choice([("str",), ("opt", ("int",), "Optional"), ("decimal",)])}]
        if r.random() < 0.4:
            # a NamedTuple below the NamedTuple (the field's engine option travels into it on BOTH directions)
            inner = self.fresh("NT")
            self.fam.add({"k": "nt", "name": inner, "fields": [{"n": "g0", "t": ("int",)}, {"n": "g1", "t": r.choice([("str",), ("float",)])}],
                          "functional": False}, self.value_maker)
            I = ("nt", inner)
            members.insert(1, {"n": "fn", "t": r.choice([I, I, ("opt", I, "Optional"), ("tuple", "Tuple", [I, ("str",)])])})
        if r.random() < 0.4:
            members[-1]["dseed"] = r.getrandbits(32)
        self.fam.add({"k": "nt", "name": nt, "fields": members, "functional": False}, self.value_maker)
        N = ("nt", nt)
        eng = r.choice([None, "'as_list'", "'as_dict'", "'as_list'", "'as_dict'"])
        positions = [("d", N), ("o", ("opt", N, "Optional")), ("l", ("seq", "List", N)), ("m", ("map", "Dict", ("str",), N)),
                     ("t", ("tuple", "Tuple", [N, ("int",)]))]
        r.shuffle(positions)
        fields = []
        for n, t in positions[:r.randint(2, 5)]:
            f = {"n": n, "t": t}
            if eng and r.random() < 0.8:
                f["meta"] = {"serialize": eng, "deserialize": eng}
            fields.append(f)
        if mixin is None:
            mixin = r.choice(self.mixins) if r.random() < self.mixin_prob else None
        name = self.fresh("DC")
        d = {"k": "dc", "name": name, "bases": [], "mixin": mixin, "fields": fields}
        cfg = dict(self.dc_config_fn(r) or {}) if self.dc_config_fn else {}
        cfg.pop("_aliases", None)
        cfg.pop("namedtuple_as_dict", None)
        if r.random() < 0.5:
            cfg["namedtuple_as_dict"] = "True"
        if cfg:
            d["config"] = cfg
        self.fam.add(d, self.value_maker)
        return ("dc", name)

    def _engine_safe(self, t, _seen=None):
        """the field's metadata travels with the spec into NamedTuple members, tuples, unions and TypedDicts (not into
        list / dict elements); date / datetime / time members read deserialize= as THEIR engine name and reject
        'as_dict' loudly when the class is built, so such fields get no NamedTuple engine option."""
        seen = _seen if _seen is not None else set()
        for n in tast.walk(t):
            if n[0] in ("date", "datetime", "time", "stype", "boxed"):      # annotated SerializableType / strategies speak date on the wire
                return False
            if n[0] == "tv" and n[1] not in seen:
                seen.add(n[1])
                df = self.fam.defs.get(n[1], {})
                subs = list(df.get("constraints") or ()) + ([df["bound"]] if df.get("bound") is not None else [])
                if not all(self._engine_safe(c, seen) for c in subs):
                    return False
            if n[0] in ("nt", "td") and n[1] not in seen:
                seen.add(n[1])
                if not all(self._engine_safe(f["t"], seen) for f in self.fam.defs[n[1]]["fields"]):
                    return False
        return True

    def _fix_defaults(self, d):
        """unhashable defaults must be factories (dataclass rule)."""
        for f in d["fields"]:
            if "const_default" in f:
                continue
            if f.get("dmode") == "default":
                v = self.value_maker(f["t"], f["dseed"])
                if type(v).__hash__ is None:
                    f["dmode"] = "factory"
