"""Hostile decode inputs: single-position corruptions and structural edits of a
valid basic-form document, plus whole-argument junk."""
from __future__ import annotations

import copy


def junk_pool():
    # fresh objects each call (some are mutable)
    return [
        None, True, False, 0, 1, -1, 12, 3, 7, 10**30, 1.5, -0.0, float("nan"), float("inf"),
        "", "x", "garbage", "12", "1.5", "2020-01-01", "2020-01-01T10:00:00+03:00", "10:20:30",
        "UTC+25:00", "UTC-00:30", "UTC", "a", "true", "None", "1/3",
        "00000000-0000-0000-0000-000000000001", "127.0.0.1", "::1", "YWJj\n",
        [], [1], ["a", 2], [None], [[1]], [1, 2, 3, 4, 5], ["x", "y"],
        {}, {"k": 1}, {"type": 1}, {"a0": 1}, {"1": "2"}, [{"a": 1}, {"b": 2}],
        (1, 2), ("a",), b"bytes", object(),
    ]


def paths(d, prefix=()):
    """all positions of a JSON-like tree (dict values, list items; keys are not positions)."""
    out = [prefix]
    if isinstance(d, dict):
        for k, v in d.items():
            out += paths(v, prefix + (("k", k),))
    elif isinstance(d, list):
        for i, v in enumerate(d):
            out += paths(v, prefix + (("i", i),))
    return out


def get_at(d, path):
    for kind, k in path:
        d = d[k]
    return d


def set_at(d, path, value):
    """returns a new tree (deep copy along the way) with position replaced."""
    if not path:
        return value
    d = _copy(d)
    cur = d
    for kind, k in path[:-1]:
        cur = cur[k]
    cur[path[-1][1]] = value
    return d


def _copy(d):
    if isinstance(d, dict):
        return {k: _copy(v) for k, v in d.items()}
    if isinstance(d, list):
        return [_copy(v) for v in d]
    return d


class _Fallback:
    """what a defaultdict input hands out for absent keys; converts to nothing sensible."""
    def __repr__(self):
        return "<fallback>"


def mutations(d, rng, n):
    """n hostile variants of a valid document d: (label, new_doc, path, injected)."""
    out = []
    ps = paths(d)
    pool = junk_pool()
    for _ in range(n):
        kind = rng.random()
        p = rng.choice(ps)
        target = get_at(d, p)
        if kind < 0.6:
            j = rng.choice(pool)
            out.append(("replace", set_at(d, p, j), p, j))
        elif kind < 0.7 and isinstance(target, dict) and target:
            k = rng.choice(list(target))
            new = {a: b for a, b in target.items() if a != k}
            out.append(("drop-key", set_at(d, p, new), p, k))
        elif kind < 0.78 and isinstance(target, dict):
            new = dict(target)
            new["stranger"] = rng.choice(pool)
            out.append(("add-key", set_at(d, p, new), p, "stranger"))
        elif kind < 0.86 and isinstance(target, list):
            if target and rng.random() < 0.5:
                out.append(("truncate", set_at(d, p, list(target[:-1])), p, None))
            else:
                extra = rng.choice(pool)
                out.append(("extend", set_at(d, p, list(target) + [extra]), p, extra))
        elif kind < 0.92 and isinstance(target, list):
            new = {str(i): v for i, v in enumerate(target)}
            out.append(("list->dict", set_at(d, p, new), p, None))
        elif kind < 0.94 and isinstance(target, dict):
            out.append(("dict->list", set_at(d, p, list(target.values())), p, None))
        elif kind < 0.97 and isinstance(target, dict):
            # the same mapping (all its keys kept) as an object with __missing__: subscripting it with an absent
            # OPTIONAL key would yield a fallback value and store it; required keys are all present, so reading them
            # by subscription (which the library legitimately does for TypedDict / NamedTuple-as-dict) is harmless
            import collections
            out.append(("defaultdict", set_at(d, p, collections.defaultdict(_Fallback, dict(target))), p, None))
        else:
            j = rng.choice(pool)
            out.append(("replace", set_at(d, p, j), p, j))
    return out
