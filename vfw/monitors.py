"""Hook-free instrumentation of the real library.

* generated-code registry: sys.addaudithook 'exec' events whose caller frame is
  inside the mashumaro package -> every generated code object (+ nested ones)
* swallowed-exception monitor: sys.monitoring RAISE restricted to generated code
* generated-line coverage: sys.monitoring LINE with DISABLE after first hit
* live-bytecode closure walk: dis over every live generated function
* identity graphs over mutable containers
"""
from __future__ import annotations

import builtins
import collections
import dataclasses
import dis
import gc
import os
import sys
import types

_MASH_DIR = None


def _mash_dir():
    global _MASH_DIR
    if _MASH_DIR is None:
        import mashumaro
        _MASH_DIR = os.path.dirname(os.path.abspath(mashumaro.__file__)) + os.sep
    return _MASH_DIR


class GeneratedCode:
    """registry of code objects exec'ed by mashumaro."""

    def __init__(self):
        self.modules = []          # module-level code objects passed to exec
        self.functions = {}        # id(code) -> code (function code objects)
        self.sources = {}          # id(code) -> source text if exec got a str
        self.exec_events = 0
        self.by_thread = collections.Counter()
        self.installed = False
        self.enabled = True
        self.listeners = []

    def install(self):
        if self.installed:
            return
        self.installed = True
        sys.addaudithook(self._hook)

    def _hook(self, event, args):
        if event != "exec" or not self.enabled:
            return
        try:
            f = sys._getframe(1)
            fn = f.f_code.co_filename
            if not fn.startswith(_mash_dir()):
                return
            code = args[0]
            if not isinstance(code, types.CodeType):
                return
            self.exec_events += 1
            import threading
            self.by_thread[threading.get_ident()] += 1
            self.modules.append(code)
            self._collect(code)
            for l in self.listeners:
                l(code)
        except Exception:
            pass

    def _collect(self, code):
        for c in code.co_consts:
            if isinstance(c, types.CodeType):
                if id(c) not in self.functions:
                    self.functions[id(c)] = c
                    self._collect(c)

    def is_generated(self, code):
        return id(code) in self.functions

    def total_lines(self):
        n = 0
        for c in self.functions.values():
            n += len({ln for _, _, ln in c.co_lines() if ln is not None})
        return n


GEN = GeneratedCode()


class RaiseMonitor:
    """records exceptions raised inside generated code (even if swallowed later)."""

    TOOL = 4

    def __init__(self, gen=GEN):
        self.gen = gen
        self.events = []          # (exc type name, message, code name) for current window
        self.counts = collections.Counter()
        self.active = False

    def install(self):
        mon = sys.monitoring
        if self.active:
            return
        mon.use_tool_id(self.TOOL, "vfw-raise")
        mon.register_callback(self.TOOL, mon.events.RAISE, self._on_raise)
        mon.set_events(self.TOOL, mon.events.RAISE)
        self.active = True

    def _on_raise(self, code, offset, exc):
        if code.co_filename == "<string>" and id(code) in self.gen.functions:
            name = type(exc).__name__
            self.counts[name] += 1
            if len(self.events) < 10000:
                try:
                    msg = str(exc)[:200]
                except Exception as e2:      # an exception whose own __str__ fails must not make the MONITOR raise
                    msg = f"<str() failed: {type(e2).__name__}>"
                self.events.append((name, msg, code.co_name))

    def window(self):
        ev = self.events
        self.events = []
        return ev

    def uninstall(self):
        if self.active:
            mon = sys.monitoring
            mon.set_events(self.TOOL, 0)
            mon.free_tool_id(self.TOOL)
            self.active = False


class LineCoverage:
    """distinct executed lines of generated functions (DISABLE after first hit)."""

    TOOL = 5

    def __init__(self, gen=GEN):
        self.gen = gen
        self.hit = set()
        self.active = False

    def install(self):
        mon = sys.monitoring
        if self.active:
            return
        mon.use_tool_id(self.TOOL, "vfw-cov")
        mon.register_callback(self.TOOL, mon.events.LINE, self._on_line)
        mon.set_events(self.TOOL, mon.events.LINE)
        self.active = True

    def _on_line(self, code, line):
        if code.co_filename == "<string>" and id(code) in self.gen.functions:
            self.hit.add((id(code), line))
        return sys.monitoring.DISABLE

    def uninstall(self):
        if self.active:
            mon = sys.monitoring
            mon.set_events(self.TOOL, 0)
            mon.free_tool_id(self.TOOL)
            self.active = False


# ------------------------------------------------------------------ closure walk
def live_functions(codes):
    """map code objects to the live function objects that own them."""
    out = []
    for code in codes:
        for ref in gc.get_referrers(code):
            if isinstance(ref, types.FunctionType) and ref.__code__ is code:
                out.append(ref)
    return out


def unresolved_globals(fn):
    """global names / module attribute chains loaded anywhere in fn that do not
    resolve in fn.__globals__ / builtins.  Returns list of dotted names."""
    bad = []
    g = fn.__globals__
    b = builtins.__dict__
    ins = list(dis.get_instructions(fn.__code__))
    i = 0
    while i < len(ins):
        op = ins[i]
        if op.opname in ("LOAD_GLOBAL", "LOAD_NAME"):
            name = op.argval
            if name in g:
                obj = g[name]
            elif name in b:
                obj = b[name]
            else:
                bad.append(name)
                i += 1
                continue
            # follow attribute chain while the base is a module
            j = i + 1
            dotted = name
            while j < len(ins) and ins[j].opname in ("LOAD_ATTR", "LOAD_METHOD") and isinstance(obj, types.ModuleType):
                attr = ins[j].argval
                dotted += "." + attr
                if not hasattr(obj, attr):
                    bad.append(dotted)
                    break
                obj = getattr(obj, attr)
                j += 1
        i += 1
    return bad


def global_refs(fn):
    """(name, object) for every global name the function loads and resolves."""
    g = fn.__globals__
    out = []
    for op in dis.get_instructions(fn.__code__):
        if op.opname in ("LOAD_GLOBAL", "LOAD_NAME") and op.argval in g:
            out.append((op.argval, g[op.argval]))
    return out


# ------------------------------------------------------------------ identity graphs
MUTABLE = (list, dict, set, bytearray, collections.deque, collections.ChainMap)


def containers(x, acc=None, seen=None, path="$", paths=None):
    """id -> object for every mutable container reachable from x."""
    if acc is None:
        acc = {}
    if seen is None:
        seen = set()
    if id(x) in seen:
        return acc
    seen.add(id(x))
    if isinstance(x, MUTABLE):
        acc[id(x)] = x
        if paths is not None:
            paths[id(x)] = path
    if dataclasses.is_dataclass(x) and not isinstance(x, type):
        for f in dataclasses.fields(x):
            containers(getattr(x, f.name, None), acc, seen, f"{path}.{f.name}", paths)
    elif isinstance(x, collections.ChainMap):
        for i, m in enumerate(x.maps):
            containers(m, acc, seen, f"{path}.maps[{i}]", paths)
    elif isinstance(x, (dict, types.MappingProxyType)):
        for k, v in x.items():
            containers(k, acc, seen, f"{path}<key>", paths)
            containers(v, acc, seen, f"{path}[{k!r}]", paths)
    elif isinstance(x, (list, tuple, set, frozenset, collections.deque)):
        for i, v in enumerate(x):
            containers(v, acc, seen, f"{path}[{i}]", paths)
    elif type(x).__module__.startswith(("c", "v", "g", "r")) and hasattr(x, "__dict__") and not isinstance(x, type) and type(x).__module__ in sys.modules and getattr(
            sys.modules[type(x).__module__], "_V", None) is not None:
        # an instance of a user class defined in a generated family module (SerializableType, boxed classes ...)
        for k, v in vars(x).items():
            containers(v, acc, seen, f"{path}.{k}", paths)
    return acc
