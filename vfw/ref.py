"""Reference interpreter over the type AST (independent of mashumaro):
REF_ENCODE, REF_DECODE, CONFORMS, REF_UNION_DECODE and deep equality.

It encodes the documented representations (README "supported data types" and
the statement of C02/C03).  It never imports mashumaro.
"""
from __future__ import annotations

import ast as _pyast
import base64
import collections
import dataclasses
import datetime
import decimal
import enum
import fractions
import ipaddress
import math
import os
import pathlib
import re
import types
import uuid
import zoneinfo

from . import tast


class RefError(Exception):
    """the reference says: this input is not decodable for this type"""
    index_error = False


class RefNotMapping(RefError):
    pass


class RefMissing(RefError):
    def __init__(self, cls, field):
        super().__init__(f"missing {cls}.{field}")
        self.cls, self.field = cls, field


class RefInvalid(RefError):
    def __init__(self, cls, field, value, cause=None):
        super().__init__(f"invalid {cls}.{field}: {value!r} ({cause!r})")
        self.cls, self.field, self.value, self.cause = cls, field, value, cause


class RefExtra(RefError):
    def __init__(self, cls, keys):
        super().__init__(f"extra keys {cls}: {keys!r}")
        self.cls, self.keys = cls, set(keys)


class RefMissingDiscriminator(RefError):
    pass


class RefNoVariant(RefError):
    pass


_MISSING = object()


class UDict(dict):
    """reference output whose key order is not pinned (TypedDict)."""


class MSet(list):
    """reference output whose element order is not pinned (sets)."""


def plain(x):
    """reference tree -> builtin containers."""
    if isinstance(x, dict):
        return {plain(k): plain(v) for k, v in x.items()}
    if isinstance(x, list):
        return [plain(v) for v in x]
    return x


def match(out, exp) -> bool:
    """observed encode result vs reference tree: exact classes, order where pinned."""
    if isinstance(exp, UDict):
        if type(out) is not dict or len(out) != len(exp):
            return False
        for k, v in exp.items():
            hit = [k2 for k2 in out if type(k2) is type(k) and k2 == k]
            if not hit or not match(out[hit[0]], v):
                return False
        return True
    if isinstance(exp, MSet):
        if type(out) is not list or len(out) != len(exp):
            return False
        rest = list(out)
        for e in exp:
            for i, o in enumerate(rest):
                if match(o, e):
                    del rest[i]
                    break
            else:
                return False
        return True
    if type(exp) is dict:
        if type(out) is not dict or len(out) != len(exp):
            return False
        for (k1, v1), (k2, v2) in zip(out.items(), exp.items()):
            if not match(k1, k2) or not match(v1, v2):
                return False
        return True
    if type(exp) is list:
        return type(out) is list and len(out) == len(exp) and all(match(o, e) for o, e in zip(out, exp))
    return deep_eq(out, exp)

ORJSON_NATIVES = frozenset({"datetime", "date", "time", "uuid"})
MSGPACK_NATIVES = frozenset({"bytes", "bytearray"})
TOML_NATIVES = frozenset({"datetime", "date", "time"})


@dataclasses.dataclass(frozen=True)
class Ctx:
    nt_as_dict: bool = False          # option of the current holder
    nt_engine_field: object = None    # field option serialize= / deserialize= 'as_dict' (True) | 'as_list' (False)
    natives: frozenset = frozenset()  # scalar kinds left unconverted (format dialects)
    drop_none: bool = False           # TOML: null-valued dataclass fields dropped
    dnatives: frozenset = frozenset()  # scalar kinds passed through on decode
    default_opts: tuple = ()          # codec default_dialect options ((k, v), ...)


def _lit(src, default=None):
    if src is None:
        return default
    try:
        return _pyast.literal_eval(src)
    except Exception:
        return default


def tz_name(tz: datetime.timezone) -> str:
    """own formatter of 'UTC' / 'UTC+hh:mm' from the offset (documented form)."""
    off = tz.utcoffset(None)
    total = off.days * 86400 + off.seconds
    if total == 0 and off.microseconds == 0:
        return "UTC"
    sign = "+" if total >= 0 else "-"
    total = abs(total)
    h, rem = divmod(total, 3600)
    m, s = divmod(rem, 60)
    out = f"UTC{sign}{h:02d}:{m:02d}"
    if s or off.microseconds:
        out += f":{s:02d}"
    return out


_TZ_RE = re.compile(r"UTC(?:([+-])(\d\d):(\d\d))?")


def tz_parse(s) -> datetime.timezone:
    if not isinstance(s, str):
        raise RefError("timezone needs str")
    m = _TZ_RE.fullmatch(s)
    if not m:
        raise RefError(f"bad timezone {s!r}")
    if m.group(1) is None:
        return datetime.timezone.utc
    h, mi = int(m.group(2)), int(m.group(3))
    if mi > 59:
        raise RefError("minutes")
    delta = datetime.timedelta(hours=h, minutes=mi)
    if m.group(1) == "-":
        delta = -delta
    try:
        return datetime.timezone(delta)
    except ValueError as e:
        raise RefError(str(e))


class Ref:
    def __init__(self, fam, quirks=()):
        self.fam = fam
        self.tv_bind = {}
        # quirks: behaviours of the pinned library that are recorded findings; a quirk
        # reference is used ONLY to classify a violation already established by the
        # strict reference (is the observation explained by exactly this mechanism?)
        self.quirks = frozenset(quirks)
        self.dropped_unrestorable_none = False
        self._cls_stack = []

    # ================================================================ options
    def dc_opts(self, name, ctx):
        fam = self.fam
        dflt = dict(ctx.default_opts)

        def opt(o, default=False):
            src = fam.dc_config(name, o)
            if src is None:
                return dflt.get(o, default)
            return _lit(src, default)
        return {
            "by_alias": bool(opt("serialize_by_alias")),
            "aliases": _lit(fam.dc_config(name, "aliases"), {}) or {},
            "sort_keys": bool(_lit(fam.dc_config(name, "sort_keys"), False)),
            "omit_none": bool(opt("omit_none")) or ctx.drop_none,
            "omit_default": bool(opt("omit_default")),
            "nt_as_dict": bool(opt("namedtuple_as_dict")),
            "allow_not_by_alias": bool(_lit(fam.dc_config(name, "allow_deserialization_not_by_alias"), False)),
            "forbid_extra": bool(_lit(fam.dc_config(name, "forbid_extra_keys"), False)),
        }

    def field_alias(self, name, f, opts):
        if f.get("alias") is not None:
            return f["alias"]
        t = f["t"]
        if t[0] == "ann":
            for src in t[2]:
                m = re.fullmatch(r"Alias\((.*)\)", src)
                if m:
                    return _pyast.literal_eval(m.group(1))
        return opts["aliases"].get(f["n"])

    # ================================================================ encode
    # element positions of these kinds are built by pack_collection / unpack_collection, which hand the elements
    # a field context WITHOUT the field's metadata: a per-field NamedTuple engine does not reach into them
    _COLLECTION_KINDS = ("seq", "map", "counter", "chainmap")

    def enc(self, t, v, ctx=Ctx()):
        k = t[0]
        if ctx.nt_engine_field is not None and k in self._COLLECTION_KINDS:
            ctx = dataclasses.replace(ctx, nt_engine_field=None)
        return getattr(self, "_e_" + k)(t, v, ctx)

    def _e_any(self, t, v, ctx):
        return v

    _e_int = _e_float = _e_bool = _e_str = _e_none = _e_any

    def _native(self, k, ctx):
        return k in ctx.natives

    def _e_bytes(self, t, v, ctx):
        if self._native(t[0], ctx):
            return v
        return base64.encodebytes(v).decode()

    _e_bytearray = _e_bytes

    def _e_datetime(self, t, v, ctx):
        if self._native(t[0], ctx):
            return v
        return v.isoformat()

    _e_date = _e_time = _e_datetime

    def _e_timedelta(self, t, v, ctx):
        return v.total_seconds()

    def _e_timezone(self, t, v, ctx):
        return tz_name(v)

    def _e_zoneinfo(self, t, v, ctx):
        return str(v)

    def _e_uuid(self, t, v, ctx):
        if self._native(t[0], ctx):
            return v
        return str(v)

    def _e_decimal(self, t, v, ctx):
        return str(v)

    _e_fraction = _e_decimal

    def _e_ip(self, t, v, ctx):
        return str(v)

    def _e_path(self, t, v, ctx):
        return os.fspath(v)

    def _e_pattern(self, t, v, ctx):
        return v.pattern

    def _e_enum(self, t, v, ctx):
        return v.value

    # SerializableType: the user's methods ARE the specification; with use_annotations the annotated wire type is
    # converted by the library on the way out and on the way in
    _STYPE_WIRE = ("tuple", "Tuple", (("date",), ("int",)))

    _BOXED_WIRE = ("seq", "List", ("date",))

    def _boxed(self, t):
        df = self.fam.defs[t[1]]
        return df["flavour"], getattr(self.fam.module, t[1] + "_S")

    def _e_boxed(self, t, v, ctx):
        fl, strat = self._boxed(t)
        if fl == "dict":
            return strat["serialize"](v)
        raw = strat.serialize(v)
        if fl == "plain":
            return raw
        return self.enc(self._BOXED_WIRE, raw, dataclasses.replace(ctx, nt_engine_field=None))

    def _d_boxed(self, t, d, ctx):
        fl, strat = self._boxed(t)
        if fl == "dict":
            return self._call(strat["deserialize"], d)
        if fl != "plain":
            d = self.dec(self._BOXED_WIRE, d, dataclasses.replace(ctx, nt_engine_field=None))
        return self._call(strat.deserialize, d)

    def _c_boxed(self, t, v):
        import datetime
        return type(v) is self.fam.get(t[1]) and type(v.items) is list and all(type(x) is datetime.date for x in v.items)

    _STYPE_WIRE_LIST = ("tuple", "Tuple", (("seq", "List", ("int",)), ("int",)))

    def _stype_wire(self, t):
        return self._STYPE_WIRE_LIST if self.fam.defs[t[1]]["flavour"] == "annotations-list" else self._STYPE_WIRE

    def _e_stype(self, t, v, ctx):
        raw = v._serialize()
        if self.fam.defs[t[1]]["flavour"] == "plain":
            return raw
        return self.enc(self._stype_wire(t), raw, dataclasses.replace(ctx, nt_engine_field=None))

    def _e_seq(self, t, v, ctx):
        items = [self.enc(t[2], x, ctx) for x in v]
        if tast.SEQ_SPELLINGS[t[1]][1] in ("set", "frozenset"):
            return MSet(items)
        return items

    def _e_map(self, t, v, ctx):
        return {self.enc(t[2], k, ctx): self.enc(t[3], x, ctx) for k, x in v.items()}

    def _e_counter(self, t, v, ctx):
        return {self.enc(t[2], k, ctx): x for k, x in v.items()}

    def _e_chainmap(self, t, v, ctx):
        return [{self.enc(t[2], k, ctx): self.enc(t[3], x, ctx) for k, x in m.items()} for m in v.maps]

    def _e_tuple(self, t, v, ctx):
        return [self.enc(x, y, ctx) for x, y in zip(t[2], v)]

    def _e_vtuple(self, t, v, ctx):
        return [self.enc(t[2], x, ctx) for x in v]

    def _e_utuple(self, t, v, ctx):
        pre, mid, post = t[2], t[3], t[4]
        n = len(v)
        out = [self.enc(x, y, ctx) for x, y in zip(pre, v[:len(pre)])]
        midv = v[len(pre): n - len(post)]
        out += self.enc(mid, midv, ctx)
        if post:
            out += [self.enc(x, y, ctx) for x, y in zip(post, v[n - len(post):])]
        return out

    def _e_nt(self, t, v, ctx):
        fields = self.fam.defs[t[1]]["fields"]
        if (ctx.nt_as_dict if ctx.nt_engine_field is None else ctx.nt_engine_field):
            return {f["n"]: self.enc(f["t"], x, ctx) for f, x in zip(fields, v)}
        return [self.enc(f["t"], x, ctx) for f, x in zip(fields, v)]

    def _e_td(self, t, v, ctx):
        df = self.fam.defs[t[1]]
        out = UDict()
        for f in df["fields"]:
            if f["n"] in v:
                out[f["n"]] = self.enc(f["t"], v[f["n"]], ctx)
        return out

    def _e_dc(self, t, v, ctx, type_args=None):
        name = t[1]
        df = self.fam.defs[name]
        # a subclass instance in a parent-typed position is serialized by its own class
        opts = self.dc_opts(name, ctx)
        inner = dataclasses.replace(ctx, nt_as_dict=opts["nt_as_dict"], nt_engine_field=None)
        saved = dict(self.tv_bind)
        if type_args is not None and df.get("generic"):
            self.tv_bind.update(dict(zip(df["generic"], type_args)))
        self.tv_bind.update(self.class_tv_bind(df))
        self._cls_stack.append(name)
        try:
            fields = self.fam.dc_fields(name)
            if opts["sort_keys"]:
                fields = sorted(fields, key=lambda f: f["n"])
            out = {}
            for f in fields:
                if (f.get("meta") or {}).get("serialize") == "'omit'":
                    continue
                raw = getattr(v, f["n"])
                if raw is None and opts["omit_none"] and self.field_could_be_none(name, f):
                    if not (f.get("dmode") == "default"
                            and self.fam.values.get((self._owner(name, f["n"]), f["n"]), _MISSING) is None):
                        # a dropped null that the decoder cannot restore from a None default
                        self.dropped_unrestorable_none = True
                    continue
                if opts["omit_default"] and f.get("dmode"):
                    if raw == self.fam.values[(self._owner(name, f["n"]), f["n"])]:
                        continue
                key = f["n"]
                if opts["by_alias"]:
                    a = self.field_alias(name, f, opts)
                    if a is not None:
                        key = a
                if raw is None and self.field_could_be_none(name, f):
                    out[key] = None
                else:
                    out[key] = self.enc(f["t"], raw, self._field_ctx(inner, f, "serialize"))
            return out
        finally:
            self.tv_bind = saved
            self._cls_stack.pop()

    def class_tv_bind(self, df):
        """TypeVar bindings a class fixes by deriving from a specialised generic base (`class S(G[date])`): the def
        carries them as "tv_bind"; inherited ones apply too."""
        out = {}
        for b in df.get("bases", ()):
            bd = self.fam.defs.get(b.split("[")[0])
            if bd and bd.get("k") == "dc":
                out.update(self.class_tv_bind(bd))
        out.update(df.get("tv_bind") or {})
        return out

    @staticmethod
    def _field_ctx(ctx, f, direction):
        """field option serialize= / deserialize= 'as_dict' | 'as_list': the NamedTuple engine of this field."""
        eng = (f.get("meta") or {}).get(direction)
        if eng in ("'as_dict'", "'as_list'"):
            return dataclasses.replace(ctx, nt_engine_field=eng == "'as_dict'")
        return ctx

    def _owner(self, name, fname):
        """class in which the (effective) field definition lives."""
        eff = [f for f in self.fam.dc_fields(name) if f["n"] == fname]
        if eff:
            for cname, d in self.fam.defs.items():
                if d.get("k") == "dc" and any(f is eff[0] for f in d["fields"]):
                    return cname
        return self._owner_by_bases(name, fname)

    def _owner_by_bases(self, name, fname):
        """class in which the (effective) field definition lives."""
        d = self.fam.defs[name]
        for f in d["fields"]:
            if not f.get("raw") and f["n"] == fname:
                return name
        for b in d.get("bases", ()):
            bname = b.split("[")[0]
            if bname in self.fam.defs and self.fam.defs[bname]["k"] == "dc":
                o = self._owner_by_bases(bname, fname)
                if o:
                    return o
        return None

    def nullable_field(self, f):
        t = tast.strip(f["t"])
        if t[0] in ("opt", "any", "none"):
            return True
        if t[0] == "union" and ("none",) in self.union_members(t):
            return True
        if t[0] == "tv":
            b = self.tv_bind.get(t[1])
            if b is None:
                df = self.fam.defs[t[1]]
                return not df.get("constraints")
            return tast.strip(b)[0] in ("opt", "any", "none")
        return False

    def _e_gdc(self, t, v, ctx):
        return self._e_dc(("dc", t[1]), v, ctx, type_args=[self.resolve_tv(a) for a in t[2]])

    def resolve_tv(self, t):
        if t[0] == "tv" and t[1] in self.tv_bind:
            return self.tv_bind[t[1]]
        return t

    def _e_tv(self, t, v, ctx):
        b = self.tv_bind.get(t[1])
        if b is not None:
            return self.enc(b, v, ctx)
        df = self.fam.defs[t[1]]
        if df.get("constraints"):
            return self._e_union(("union", tuple(df["constraints"])), v, ctx)
        if df.get("bound") is not None:
            return None if v is None else self.enc(df["bound"], v, ctx)
        return v

    def _e_newtype(self, t, v, ctx):
        return self.enc(t[2], v, ctx)

    _e_talias = _e_newtype

    def _e_ann(self, t, v, ctx):
        return self.enc(t[1], v, ctx)

    _e_final = _e_ann

    def _e_opt(self, t, v, ctx):
        return None if v is None else self.enc(t[1], v, ctx)

    def union_members(self, t):
        """flatten the way typing does: nested unions / Optional of union."""
        out = []

        def add(m):
            if m[0] == "union":
                for x in m[1]:
                    add(x)
            elif m[0] == "opt":
                add(m[1])
                add(("none",))
            elif m not in out:
                out.append(m)
        if t[0] == "opt":
            add(t[1])
            add(("none",))
        else:
            for m in t[1]:
                add(m)
        return out

    def member_of(self, members, v):
        for m in members:
            if self.conforms(m, v):
                return m
        return None

    def _e_union(self, t, v, ctx):
        members = self.union_members(t)
        m = self.member_of(members, v)
        if m is None:
            raise RefError(f"value {v!r} matches no member")
        return self.enc(m, v, ctx)

    def _e_lit(self, t, v, ctx):
        for c in t[1]:
            if c[0] == "e":
                ev = getattr(self.fam.get(c[1]), c[2])
                if v == ev:
                    return v.value
            elif c[0] == "y":
                if v == c[1].encode("latin1"):
                    return self._e_bytes(("bytes",), v, ctx)
            elif c[0] == "n":
                if v is None:
                    return None
            elif v == c[1] and type(v) is type(c[1]):
                return v
        raise RefError("not a literal value")

    def _e_self(self, t, v, ctx):
        return self._e_dc(("dc", self._cls_stack[-1]), v, ctx)

    # ================================================================ decode
    def dec(self, t, d, ctx=Ctx()):
        if ctx.nt_engine_field is not None and t[0] in self._COLLECTION_KINDS:
            ctx = dataclasses.replace(ctx, nt_engine_field=None)
        return getattr(self, "_d_" + t[0])(t, d, ctx)

    @staticmethod
    def _call(fn, *a, **kw):
        try:
            return fn(*a, **kw)
        except RefError:
            raise
        except Exception as e:
            raise RefError(f"{type(e).__name__}: {e}")

    def _d_any(self, t, d, ctx):
        return d

    def _d_none(self, t, d, ctx):
        return None

    def _d_int(self, t, d, ctx):
        return self._call(int, d)

    def _d_float(self, t, d, ctx):
        return self._call(float, d)

    def _d_bool(self, t, d, ctx):
        return self._call(bool, d)

    def _d_str(self, t, d, ctx):
        return self._call(str, d)

    def _d_bytes(self, t, d, ctx):
        if "bytes" in ctx.dnatives and t[0] == "bytes":
            return d
        if "bytearray" in ctx.dnatives and t[0] == "bytearray":
            return self._call(bytearray, d)
        raw = self._call(lambda: base64.decodebytes(d.encode()))
        return raw if t[0] == "bytes" else bytearray(raw)

    _d_bytearray = _d_bytes

    def _d_datetime(self, t, d, ctx):
        if "datetime" in ctx.dnatives:
            return d
        return self._call(datetime.datetime.fromisoformat, d)

    def _d_date(self, t, d, ctx):
        if "date" in ctx.dnatives:
            return d
        return self._call(datetime.date.fromisoformat, d)

    def _d_time(self, t, d, ctx):
        if "time" in ctx.dnatives:
            return d
        return self._call(datetime.time.fromisoformat, d)

    def _d_timedelta(self, t, d, ctx):
        return self._call(lambda: datetime.timedelta(seconds=d))

    def _d_timezone(self, t, d, ctx):
        return tz_parse(d)

    def _d_zoneinfo(self, t, d, ctx):
        return self._call(zoneinfo.ZoneInfo, d)

    def _d_uuid(self, t, d, ctx):
        return self._call(uuid.UUID, d)

    def _d_decimal(self, t, d, ctx):
        return self._call(decimal.Decimal, d)

    def _d_fraction(self, t, d, ctx):
        return self._call(fractions.Fraction, d)

    def _d_ip(self, t, d, ctx):
        return self._call(getattr(ipaddress, t[1]), d)

    def _d_path(self, t, d, ctx):
        return self._call(getattr(pathlib, tast.PATH_CANON[t[1]]), d)

    def _d_pattern(self, t, d, ctx):
        return self._call(re.compile, d)

    def _d_enum(self, t, d, ctx):
        return self._call(self.fam.get(t[1]), d)

    def _iter(self, d):
        try:
            return list(iter(d))
        except Exception as e:
            raise RefError(f"not iterable: {e}")

    def _d_seq(self, t, d, ctx):
        items = [self.dec(t[2], x, ctx) for x in self._iter(d)]
        kind = tast.SEQ_SPELLINGS[t[1]][1]
        if kind == "list":
            return items
        if kind == "deque":
            return collections.deque(items)
        if kind == "set":
            return self._call(set, items)
        return self._call(frozenset, items)

    def _items(self, d):
        try:
            return list(d.items())
        except Exception as e:
            raise RefError(f"no items(): {e}")

    def _pairs(self, kt, vt, d, ctx):
        out = {}
        for k, v in self._items(d):
            dk = self.dec(kt, k, ctx)
            dv = self.dec(vt, v, ctx)
            try:
                out[dk] = dv
            except TypeError as e:
                raise RefError(str(e))
        return out

    def _d_map(self, t, d, ctx):
        base = self._pairs(t[2], t[3], d, ctx)
        kind = tast.MAP_SPELLINGS[t[1]][1]
        if kind == "dict":
            return base
        if kind == "OrderedDict":
            return collections.OrderedDict(base)
        if kind == "defaultdict":
            return collections.defaultdict(None, base)
        return types.MappingProxyType(base)

    def _d_counter(self, t, d, ctx):
        return collections.Counter(self._pairs(t[2], ("int",), d, ctx))

    def _d_chainmap(self, t, d, ctx):
        maps = [self._pairs(t[2], t[3], m, ctx) for m in self._iter(d)]
        return collections.ChainMap(*maps)

    def _idx(self, d, i):
        try:
            return d[i]
        except Exception as e:
            err = RefError(f"index {i!r}: {type(e).__name__}")
            err.index_error = isinstance(e, IndexError)
            raise err

    def _at(self, ft, d, i, ctx):
        """element decode; a NoneType position is the constant None and never reads
        the input (documented rendering of NoneType is the constant)."""
        c = self._const(ft)
        if c is not _MISSING:
            return c
        return self.dec(ft, self._idx(d, i), ctx)

    def _const(self, ft):
        """positions rendered as constants that never read the input: NoneType -> None, Tuple[()] -> (), and
        fixed tuples / NamedTuples (without defaults) / all-required TypedDicts made only of such positions."""
        s = tast.strip(ft)
        if s == ("none",):
            return None
        if s[0] == "tuple":
            items = [self._const(x) for x in s[2]]
            if all(i is not _MISSING for i in items):
                return tuple(items)
        if s[0] == "nt":
            fields = self.fam.defs[s[1]]["fields"]
            if not any(f.get("dseed") is not None for f in fields):
                items = [self._const(f["t"]) for f in fields]
                if all(i is not _MISSING for i in items):
                    return self.fam.get(s[1])(*items)
        return _MISSING

    def _d_tuple(self, t, d, ctx):
        return tuple([self._at(x, d, i, ctx) for i, x in enumerate(t[2])])

    def _d_vtuple(self, t, d, ctx):
        return tuple([self.dec(t[2], x, ctx) for x in self._iter(d)])

    def _d_utuple(self, t, d, ctx):
        pre, mid, post = t[2], t[3], t[4]
        out = [self._at(x, d, i, ctx) for i, x in enumerate(pre)]
        sl = slice(len(pre), -len(post) if post else None)
        if mid[0] == "tuple" and all(self._const(x) is not _MISSING for x in mid[2]):
            out += [self._const(x) for x in mid[2]]     # all-constant unpack: input never read
        else:
            out += list(self.dec(mid, self._idx(d, sl), ctx))
        n = len(post)
        out += [self._at(x, d, i - n, ctx) for i, x in enumerate(post)]
        return tuple(out)

    def _d_nt(self, t, d, ctx):
        df = self.fam.defs[t[1]]
        cls = self.fam.get(t[1])
        fields = df["fields"]
        has_defaults = any(f.get("dseed") is not None for f in fields)
        vals = []
        if (ctx.nt_as_dict if ctx.nt_engine_field is None else ctx.nt_engine_field):
            for f in fields:
                try:
                    vals.append(self._at(f["t"], d, f["n"], ctx))
                except RefError as e:
                    # the same helper shape as the list form: an IndexError of a NESTED conversion ends the reading (F24)
                    if "F24" in self.quirks and has_defaults and e.index_error:
                        break
                    raise
            return self._call(cls, *vals)
        for i, f in enumerate(fields):
            c = self._const(f["t"])
            if c is not _MISSING:
                vals.append(c)   # constant position: never reads the input
                continue
            try:
                item = d[i]
            except IndexError:
                if has_defaults:
                    break
                err = RefError("short input")
                err.index_error = True
                raise err
            except Exception as e:
                raise RefError(f"index: {type(e).__name__}")
            try:
                vals.append(self.dec(f["t"], item, ctx))
            except RefError as e:
                if "F24" in self.quirks and has_defaults and e.index_error:
                    break
                raise
        return self._call(cls, *vals)

    def _d_td(self, t, d, ctx):
        df = self.fam.defs[t[1]]
        total = df.get("total", True)
        out = {}
        req, optional = [], []
        for f in df["fields"]:
            r = f.get("q") == "Required" or (f.get("q") is None and total)
            (req if r else optional).append(f)
        for f in req:
            out[f["n"]] = self._at(f["t"], d, f["n"], ctx)
        for f in optional:
            try:
                x = d.get(f["n"], _MISSING)
            except Exception as e:
                raise RefError(f"get: {type(e).__name__}")
            if x is not _MISSING:
                out[f["n"]] = self.dec(f["t"], x, ctx)
        return out

    def field_could_be_none(self, name, f):
        if self.nullable_field(f):
            return True
        if f.get("dmode") == "default":
            owner = self._owner(name, f["n"])
            return self.fam.values.get((owner, f["n"]), _MISSING) is None
        return False

    def accepted_keys(self, name, f, opts):
        a = self.field_alias(name, f, opts)
        if a is None:
            return [f["n"]]
        if opts["allow_not_by_alias"]:
            return [a, f["n"]]
        return [a]

    def _d_dc(self, t, d, ctx, type_args=None):
        name = t[1]
        df = self.fam.defs[name]
        cls = self.fam.get(name)
        opts = self.dc_opts(name, ctx)
        inner = dataclasses.replace(ctx, nt_as_dict=opts["nt_as_dict"], nt_engine_field=None)
        fields = [f for f in self.fam.dc_fields(name) if f.get("init") is not False]
        saved = dict(self.tv_bind)
        if type_args is not None and df.get("generic"):
            self.tv_bind.update(dict(zip(df["generic"], type_args)))
        self.tv_bind.update(self.class_tv_bind(df))
        self._cls_stack.append(name)
        try:
            if fields and not hasattr(d, "get"):
                raise RefNotMapping(name)
            if opts["forbid_extra"] and fields:
                allowed = set()
                for f in fields:
                    allowed.update(self.accepted_keys(name, f, opts))
                try:
                    extra = set(d.keys()) - allowed
                except Exception:
                    raise RefNotMapping(name)
                if extra:
                    raise RefExtra(name, extra)
            kw = {}
            for f in fields:
                val = _MISSING
                for key in self.accepted_keys(name, f, opts):
                    try:
                        val = d.get(key, _MISSING)
                    except Exception:
                        raise RefNotMapping(name)
                    if val is not _MISSING:
                        break
                if val is _MISSING:
                    if not f.get("dmode"):
                        raise RefMissing(name, f["n"])
                    continue
                if val is None and self.field_could_be_none(name, f):
                    kw[f["n"]] = None
                    continue
                try:
                    if f.get("boxed_de"):
                        # the field's own one-way registration: a plain callable fed the raw input
                        kw[f["n"]] = self._call(getattr(self.fam.module, f["boxed_de"] + "_DE"), val)
                        continue
                    kw[f["n"]] = self.dec(f["t"], val, self._field_ctx(inner, f, "deserialize"))
                except RefError as e:
                    raise RefInvalid(name, f["n"], val, e)
            return self._call(cls, **kw)
        finally:
            self.tv_bind = saved
            self._cls_stack.pop()

    def _d_gdc(self, t, d, ctx):
        return self._d_dc(("dc", t[1]), d, ctx, type_args=[self.resolve_tv(a) for a in t[2]])

    def _d_tv(self, t, d, ctx):
        b = self.tv_bind.get(t[1])
        if b is not None:
            return self.dec(b, d, ctx)
        df = self.fam.defs[t[1]]
        if df.get("constraints"):
            return self.union_decode(list(df["constraints"]), d, ctx)
        if df.get("bound") is not None:
            return None if d is None else self.dec(df["bound"], d, ctx)
        return d

    def _d_stype(self, t, d, ctx):
        cls = self.fam.get(t[1])
        if self.fam.defs[t[1]]["flavour"] != "plain":
            d = self.dec(self._stype_wire(t), d, dataclasses.replace(ctx, nt_engine_field=None))
        return self._call(cls._deserialize, d)

    def _d_newtype(self, t, d, ctx):
        return self.dec(t[2], d, ctx)

    _d_talias = _d_newtype

    def _d_ann(self, t, d, ctx):
        return self.dec(t[1], d, ctx)

    _d_final = _d_ann

    def _d_opt(self, t, d, ctx):
        if tast.strip(t[1])[0] == "union":
            return self.union_decode(self.union_members(t), d, ctx)
        return None if d is None else self.dec(t[1], d, ctx)

    def _d_union(self, t, d, ctx):
        return self.union_decode(self.union_members(t), d, ctx)

    BASIC_PY = {"int": int, "float": float, "bool": bool, "str": str, "none": type(None)}

    def union_decode(self, members, d, ctx):
        """one declaration-order pass (basic scalars by exact type, others by try),
        then the scalar coercions in declaration order; a null member matches
        only null."""
        if len(members) == 2 and ("none",) in members:
            other = [m for m in members if m != ("none",)][0]
            return None if d is None else self.dec(other, d, ctx)
        for m in members:
            s = tast.strip(m)
            if s[0] in self.BASIC_PY:
                if type(d) is self.BASIC_PY[s[0]]:
                    return d
            else:
                try:
                    return self.dec(m, d, ctx)
                except RefError:
                    pass
        for m in members:
            s = tast.strip(m)
            if s[0] in self.BASIC_PY and s[0] != "none":
                try:
                    return self.dec(m, d, ctx)
                except RefError:
                    pass
            elif s[0] == "none" and "F02" in self.quirks:
                return None
        raise RefError("no union member accepts the input")

    def _d_lit(self, t, d, ctx):
        for c in t[1]:
            if c[0] == "e":
                ev = getattr(self.fam.get(c[1]), c[2])
                if self._eq(d, ev.value):
                    return ev
            elif c[0] == "y":
                lit = c[1].encode("latin1")
                if "bytes" in ctx.dnatives:
                    # the format hands bytes over as they are (msgpack): the constant is compared with the raw object
                    if isinstance(d, (bytes, bytearray)) and d == lit:
                        return lit
                    continue
                try:
                    if base64.decodebytes(d.encode()) == lit:
                        return lit
                except Exception:
                    pass
            elif c[0] == "n":
                if self._eq(d, None):
                    return None
            elif self._eq(d, c[1]):
                return c[1]
        raise RefError("not a literal value")

    @staticmethod
    def _eq(a, b):
        try:
            return bool(a == b)
        except Exception:
            return False

    def _d_self(self, t, d, ctx):
        return self._d_dc(("dc", self._cls_stack[-1]), d, ctx)

    def _c_self(self, t, v):
        return self._c_dc(("dc", self._cls_stack[-1]), v)

    # ================================================================ conforms
    def conforms(self, t, v) -> bool:
        """exact-class structural typing of a decoded value."""
        k = t[0]
        try:
            return bool(getattr(self, "_c_" + k)(t, v))
        except Exception:
            return False

    def _c_any(self, t, v):
        return True

    def _c_none(self, t, v):
        return v is None

    def _c_int(self, t, v):
        return type(v) is int

    def _c_float(self, t, v):
        return type(v) is float

    def _c_bool(self, t, v):
        return type(v) is bool

    def _c_str(self, t, v):
        return type(v) is str

    def _c_bytes(self, t, v):
        return type(v) is bytes

    def _c_bytearray(self, t, v):
        return type(v) is bytearray

    def _c_datetime(self, t, v):
        return type(v) is datetime.datetime

    def _c_date(self, t, v):
        return type(v) is datetime.date

    def _c_time(self, t, v):
        return type(v) is datetime.time

    def _c_timedelta(self, t, v):
        return type(v) is datetime.timedelta

    def _c_timezone(self, t, v):
        return type(v) is datetime.timezone

    def _c_zoneinfo(self, t, v):
        return isinstance(v, zoneinfo.ZoneInfo)

    def _c_uuid(self, t, v):
        return type(v) is uuid.UUID

    def _c_decimal(self, t, v):
        return type(v) is decimal.Decimal

    def _c_fraction(self, t, v):
        return type(v) is fractions.Fraction

    def _c_ip(self, t, v):
        return type(v) is getattr(ipaddress, t[1])

    def _c_path(self, t, v):
        return type(v) is getattr(pathlib, tast.PATH_CANON[t[1]])

    def _c_pattern(self, t, v):
        return type(v) is re.Pattern

    def _c_enum(self, t, v):
        return type(v) is self.fam.get(t[1])

    def _c_stype(self, t, v):
        return type(v) is self.fam.get(t[1])

    _SEQ_CLS = {"list": list, "deque": collections.deque, "set": set, "frozenset": frozenset}

    def _c_seq(self, t, v):
        cls = self._SEQ_CLS[tast.SEQ_SPELLINGS[t[1]][1]]
        return type(v) is cls and all(self.conforms(t[2], x) for x in v)

    _MAP_CLS = {"dict": dict, "OrderedDict": collections.OrderedDict,
                "defaultdict": collections.defaultdict, "mappingproxy": types.MappingProxyType}

    def _c_map(self, t, v):
        cls = self._MAP_CLS[tast.MAP_SPELLINGS[t[1]][1]]
        return type(v) is cls and all(self.conforms(t[2], k) and self.conforms(t[3], x) for k, x in v.items())

    def _c_counter(self, t, v):
        return type(v) is collections.Counter and all(
            self.conforms(t[2], k) and type(x) is int for k, x in v.items())

    def _c_chainmap(self, t, v):
        return type(v) is collections.ChainMap and all(
            type(m) is dict and all(self.conforms(t[2], k) and self.conforms(t[3], x) for k, x in m.items())
            for m in v.maps)

    def _c_tuple(self, t, v):
        return type(v) is tuple and len(v) == len(t[2]) and all(self.conforms(x, y) for x, y in zip(t[2], v))

    def _c_vtuple(self, t, v):
        return type(v) is tuple and all(self.conforms(t[2], x) for x in v)

    def _c_utuple(self, t, v):
        pre, mid, post = t[2], t[3], t[4]
        if type(v) is not tuple or len(v) < len(pre) + len(post):
            return False
        n = len(v)
        return (all(self.conforms(x, y) for x, y in zip(pre, v))
                and self.conforms(mid, tuple(v[len(pre): n - len(post)]))
                and all(self.conforms(x, y) for x, y in zip(post, v[n - len(post):])))

    def _c_nt(self, t, v):
        fields = self.fam.defs[t[1]]["fields"]
        return (type(v) is self.fam.get(t[1]) and len(v) == len(fields)
                and all(self.conforms(f["t"], x) for f, x in zip(fields, v)))

    def _c_td(self, t, v):
        if type(v) is not dict:
            return False
        df = self.fam.defs[t[1]]
        names = {f["n"]: f for f in df["fields"]}
        total = df.get("total", True)
        for f in df["fields"]:
            r = f.get("q") == "Required" or (f.get("q") is None and total)
            if r and f["n"] not in v:
                return False
        return all(k in names and self.conforms(names[k]["t"], x) for k, x in v.items())

    def _c_dc(self, t, v, type_args=None):
        cls = self.fam.get(t[1])
        if type(v) is not cls:
            return False
        df = self.fam.defs[t[1]]
        saved = dict(self.tv_bind)
        if type_args is not None and df.get("generic"):
            self.tv_bind.update(dict(zip(df["generic"], type_args)))
        self.tv_bind.update(self.class_tv_bind(df))
        self._cls_stack.append(t[1])
        try:
            for f in self.fam.dc_fields(t[1]):
                if f.get("init") is False:
                    continue
                x = getattr(v, f["n"])
                if x is None and self.field_could_be_none(t[1], f):
                    continue
                if not self.conforms(f["t"], x):
                    return False
            return True
        finally:
            self.tv_bind = saved
            self._cls_stack.pop()

    def _c_gdc(self, t, v):
        return self._c_dc(("dc", t[1]), v, type_args=[self.resolve_tv(a) for a in t[2]])

    def _c_tv(self, t, v):
        b = self.tv_bind.get(t[1])
        if b is not None:
            return self.conforms(b, v)
        df = self.fam.defs[t[1]]
        if df.get("constraints"):
            return any(self.conforms(c, v) for c in df["constraints"])
        if df.get("bound") is not None:
            return v is None or self.conforms(df["bound"], v)
        return True

    def _c_newtype(self, t, v):
        return self.conforms(t[2], v)

    _c_talias = _c_newtype

    def _c_ann(self, t, v):
        return self.conforms(t[1], v)

    _c_final = _c_ann

    def _c_opt(self, t, v):
        return v is None or self.conforms(t[1], v)

    def _c_union(self, t, v):
        return any(self.conforms(m, v) for m in t[1])

    def _c_lit(self, t, v):
        for c in t[1]:
            if c[0] == "e":
                if v is getattr(self.fam.get(c[1]), c[2]):
                    return True
            elif c[0] == "y":
                if type(v) is bytes and v == c[1].encode("latin1"):
                    return True
            elif c[0] == "n":
                if v is None:
                    return True
            elif type(v) is type(c[1]) and v == c[1]:
                return True
        return False

    # ================================================================ opaque
    def has_opaque(self, t, _seen=None) -> bool:
        """does the type contain an Any leaf (opaque to the oracle)?"""
        _seen = _seen if _seen is not None else set()
        for n in tast.walk(t):
            if n[0] == "any":
                return True
            if n[0] == "tv":
                df = self.fam.defs.get(n[1])
                b = self.tv_bind.get(n[1])
                if b is None and df and not df.get("constraints") and df.get("bound") is None:
                    return True
            if n[0] in ("dc", "nt", "td", "gdc") and n[1] not in _seen:
                _seen.add(n[1])
                df = self.fam.defs[n[1]]
                fields = self.fam.dc_fields(n[1]) if df["k"] == "dc" else df["fields"]
                if any(self.has_opaque(f["t"], _seen) for f in fields):
                    return True
        return False


# ==================================================================== equality
def deep_eq(a, b, *, key_order=True, ordered_dicts=False) -> bool:
    """== plus identical concrete classes at every node, sign of zero for floats,
    .pattern for regexes; NaN equals NaN.  Sets compare as sets."""
    if type(a) is not type(b):
        return False
    if isinstance(a, float):
        if math.isnan(a) or math.isnan(b):
            return math.isnan(a) and math.isnan(b)
        return a == b and math.copysign(1, a) == math.copysign(1, b)
    if isinstance(a, (list, tuple, collections.deque)):
        return len(a) == len(b) and all(deep_eq(x, y, key_order=key_order, ordered_dicts=ordered_dicts) for x, y in zip(a, b))
    if isinstance(a, collections.ChainMap):
        return deep_eq(a.maps, b.maps, key_order=key_order, ordered_dicts=ordered_dicts)
    if isinstance(a, (dict, types.MappingProxyType)):
        if len(a) != len(b):
            return False
        if key_order or (ordered_dicts and isinstance(a, collections.OrderedDict)):
            # (an OrderedDict compares equal to another one only in the same order)
            for (k1, v1), (k2, v2) in zip(a.items(), b.items()):
                if not deep_eq(k1, k2, key_order=key_order, ordered_dicts=ordered_dicts) or not deep_eq(v1, v2, key_order=key_order, ordered_dicts=ordered_dicts):
                    return False
            return True
        for k1, v1 in a.items():
            if k1 not in b:
                return False
            if not deep_eq(v1, b[k1], key_order=key_order, ordered_dicts=ordered_dicts):
                return False
            # key type identity
            for k2 in b:
                if k2 == k1:
                    if type(k2) is not type(k1):
                        return False
                    break
        return True
    if isinstance(a, (set, frozenset)):
        return sorted(map(_tkey, a)) == sorted(map(_tkey, b))
    if dataclasses.is_dataclass(a) and not isinstance(a, type):
        return all(deep_eq(getattr(a, f.name, _MISSING), getattr(b, f.name, _MISSING), key_order=key_order, ordered_dicts=ordered_dicts)
                   for f in dataclasses.fields(a))
    if isinstance(a, re.Pattern):
        return a.pattern == b.pattern
    if isinstance(a, decimal.Decimal):
        return a.as_tuple() == b.as_tuple() or (a.is_nan() and b.is_nan())
    if isinstance(a, datetime.datetime):
        return a == b and _off(a) == _off(b) and a.replace(tzinfo=None) == b.replace(tzinfo=None)
    if isinstance(a, datetime.time):
        return a == b and _off(a) == _off(b) and a.replace(tzinfo=None) == b.replace(tzinfo=None)
    return a == b


def _off(x):
    return None if x.tzinfo is None else x.utcoffset()


def _tkey(x):
    """order-independent structural key of a hashable value (concrete classes kept)."""
    if isinstance(x, (set, frozenset)):
        return (type(x).__name__, tuple(sorted(map(_tkey, x))))
    if isinstance(x, tuple):
        return (type(x).__name__, tuple(map(_tkey, x)))
    if isinstance(x, float):
        return ("float", repr(x))
    return (type(x).__name__, repr(x))


BASIC = (str, int, float, bool, type(None), list, dict)


def only_basic(x, allowed=BASIC) -> bool:
    if type(x) not in allowed:
        return False
    if type(x) is list:
        return all(only_basic(i, allowed) for i in x)
    if type(x) is dict:
        return all(only_basic(k, allowed) and only_basic(v, allowed) for k, v in x.items())
    return True


def fingerprint(x, _depth=0):
    """structural fingerprint (type + repr tree) used for mutation snapshots."""
    if _depth > 12:
        return "..."
    if isinstance(x, dict):
        return ("dict", type(x).__name__, tuple((fingerprint(k, _depth + 1), fingerprint(v, _depth + 1)) for k, v in x.items()))
    if isinstance(x, (list, tuple, collections.deque)):
        return (type(x).__name__, tuple(fingerprint(i, _depth + 1) for i in x))
    if isinstance(x, (set, frozenset)):
        return (type(x).__name__, tuple(sorted(repr(fingerprint(i, _depth + 1)) for i in x)))
    if isinstance(x, collections.ChainMap):
        return ("ChainMap", tuple(fingerprint(m, _depth + 1) for m in x.maps))
    if isinstance(x, types.MappingProxyType):
        return ("mappingproxy", fingerprint(dict(x), _depth + 1))
    if dataclasses.is_dataclass(x) and not isinstance(x, type):
        return (type(x).__name__, tuple((f.name, fingerprint(getattr(x, f.name, None), _depth + 1)) for f in dataclasses.fields(x)))
    if isinstance(x, float) and math.isnan(x):
        return ("float", "nan")
    return (type(x).__name__, repr(x))
