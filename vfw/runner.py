"""Sharded execution of checks, verdicts, evidence and replay files.

main process : ./check CNN --tier T   -> spawns workers (subprocess, timeout)
worker       : python -m vfw.runner --worker CNN --tier T --shard i/n --seed S --out f
"""
from __future__ import annotations

import argparse
import collections
import hashlib
import importlib
import json
import os
import random
import subprocess
import sys
import time
import traceback

ROOT = os.path.dirname(os.path.dirname(os.path.abspath(__file__)))
DEPS = os.path.join(ROOT, ".deps")
WHEELS = "/opt/veriftools/wheels"
PY = os.environ.get("VERIF_PYTHON", "/venv/bin/python")
REPO = os.environ.get("VERIF_REPO", "/repo")
# runs against a scratch copy (tools/run_seeds.sh, matrix.py, mutant.sh) keep their evidence / replay files out of /verif
OUT_ROOT = os.environ.get("VERIF_OUT") or None
GUARD = "FATAL1TY_MASHUMARO_VERIF"


# ------------------------------------------------------------------ deps
def ensure_deps():
    """jsonschema + icontract from the offline wheelhouse into /verif/.deps."""
    marker = os.path.join(DEPS, ".ok")
    if os.path.exists(marker):
        return
    import fcntl
    os.makedirs(DEPS, exist_ok=True)
    with open(os.path.join(DEPS, ".lock"), "w") as lk:
        fcntl.flock(lk, fcntl.LOCK_EX)
        if os.path.exists(marker):
            return
        cmd = [PY, "-m", "pip", "install", "-q", "--no-index", "--find-links", WHEELS,
               "--target", DEPS, "jsonschema", "icontract"]
        r = subprocess.run(cmd, capture_output=True, text=True)
        if r.returncode != 0:
            sys.stderr.write(r.stdout + r.stderr)
            raise SystemExit("setup: cannot install deps from wheelhouse")
        open(marker, "w").write("ok\n")


def worker_env():
    env = dict(os.environ)
    env["PYTHONHASHSEED"] = "0"
    env["PYTHONPATH"] = os.pathsep.join([REPO, ROOT])
    env["VERIF_DEPS"] = DEPS
    env[GUARD] = "1"
    env.setdefault("PYTHONDONTWRITEBYTECODE", "1")
    return env


def add_deps_path():
    d = os.environ.get("VERIF_DEPS", DEPS)
    if d not in sys.path:
        sys.path.append(d)   # at the END: never shadow the repo's own environment


# ------------------------------------------------------------------ recorder
class Recorder:
    """what a worker observed."""

    MAX_SAMPLES = 6
    MAX_VIOL_PER_SIG = 3

    def __init__(self, check_id, tier, replaying=False):
        self.check_id = check_id
        self.tier = tier
        self.evaluations = 0
        self.distinct = set()
        self.counts = collections.Counter()
        self.samples = []
        self.violations = []
        self._per_sig = collections.Counter()
        self._per_cap = collections.Counter()
        self._known = None
        self.case_seed = None
        self.case_index = None
        self.replaying = replaying
        self.extra = {}

    def evaluation(self, n=1):
        self.evaluations += n

    def nontrivial(self, key):
        h = hashlib.blake2b(repr(key).encode(), digest_size=8).hexdigest()
        self.distinct.add(h)

    def count(self, name, n=1):
        self.counts[name] += n

    def sample(self, obj):
        if len(self.samples) < self.MAX_SAMPLES:
            self.samples.append(_jsonable(obj))

    def violation(self, sig, detail, facts=None):
        """sig: short mechanism signature (no random values); detail: dict witness;
        facts: dict of mechanism facts used by known-finding predicates."""
        self._per_sig[sig] += 1
        self.counts["violations"] += 1
        v = {"sig": sig, "detail": _jsonable(detail), "facts": _jsonable(facts or {}),
             "case_seed": self.case_seed, "case_index": self.case_index}
        # the cap is per (known finding | new, signature): occurrences of a recorded finding must never use up the
        # slots of a NEW violation that happens to share their signature
        cap_key = (self._known_id(v), sig)
        self._per_cap[cap_key] += 1
        if self._per_cap[cap_key] <= self.MAX_VIOL_PER_SIG:
            self.violations.append(v)
        if self.replaying:
            print("  violation:", sig)
            print("   ", json.dumps(_jsonable(detail), default=str)[:2000])

    def _known_id(self, v):
        if self._known is None:
            from . import findings as F
            self._known = [(k["id"], F.PREDICATES.get(k["predicate"])) for k in load_known()
                           if self.check_id in k.get("properties", []) and k.get("status") == "open"]
        for fid, pred in self._known:
            try:
                if pred and pred(v):
                    return fid
            except Exception:
                pass
        return None

    def dump(self):
        return {
            "evaluations": self.evaluations,
            "distinct": sorted(self.distinct),
            "counts": dict(self.counts),
            "samples": self.samples,
            "violations": self.violations,
            "viol_sig_counts": dict(self._per_sig),
            "extra": self.extra,
        }


def _jsonable(x, depth=0):
    if depth > 8:
        return repr(x)[:200]
    if isinstance(x, (str, int, bool)) or x is None:
        return x
    if isinstance(x, float):
        return x if x == x and x not in (float("inf"), -float("inf")) else repr(x)
    if isinstance(x, dict):
        return {str(k): _jsonable(v, depth + 1) for k, v in list(x.items())[:60]}
    if isinstance(x, (list, tuple)):
        return [_jsonable(v, depth + 1) for v in list(x)[:60]]
    if isinstance(x, (set, frozenset)):
        return sorted((_jsonable(v, depth + 1) for v in x), key=repr)[:60]
    return repr(x)[:400]


def case_seed(seed, check_id, index):
    h = hashlib.blake2b(f"{seed}:{check_id}:{index}".encode(), digest_size=8).digest()
    return int.from_bytes(h, "big")


# ------------------------------------------------------------------ worker
def run_worker(args):
    add_deps_path()
    sys.setrecursionlimit(3000)
    mod = importlib.import_module(f"vfw.checks.{args.check.lower()}")
    rec = Recorder(args.check, args.tier)
    shard, nshards = map(int, args.shard.split("/"))
    total = mod.n_cases(args.tier)
    t0 = time.time()
    budget = float(args.budget)
    setup = getattr(mod, "worker_setup", None)
    state = setup(args.tier, rec) if setup else None
    stopped_early = False
    for i in range(shard, total, nshards):
        if time.time() - t0 > budget:
            stopped_early = True
            break
        rec.case_index = i
        rec.case_seed = case_seed(args.seed, args.check, i)
        try:
            mod.run_case(rec.case_seed, args.tier, rec, state)
        except Exception as e:  # harness error: never a verdict
            rec.count("harness_error")
            rec.extra.setdefault("harness_errors", []).append(
                {"case_index": i, "error": f"{type(e).__name__}: {e}", "tb": traceback.format_exc()[-1500:]})
        rec.count("cases")
    fin = getattr(mod, "worker_finish", None)
    if fin:
        fin(args.tier, rec, state)
    out = rec.dump()
    out["stopped_early"] = stopped_early
    out["wall_s"] = time.time() - t0
    with open(args.out, "w") as f:
        json.dump(out, f)


# ------------------------------------------------------------------ main
def load_known():
    p = os.path.join(ROOT, "known_findings.json")
    if not os.path.exists(p):
        return []
    return json.load(open(p)).get("findings", [])


def main_check(check_id, tier, seed, jobs=None, replay=None, keep=False):
    ensure_deps()
    check_id = check_id.upper()
    sys.path.insert(0, ROOT)
    if REPO not in sys.path:
        sys.path.insert(0, REPO)
    add_deps_path()
    mod = importlib.import_module(f"vfw.checks.{check_id.lower()}")
    if replay:
        return do_replay(mod, check_id, replay)
    t0 = time.time()
    ncpu = os.cpu_count() or 4
    jobs = jobs or (min(ncpu, mod.JOBS.get(tier, ncpu)) if hasattr(mod, "JOBS") else ncpu)
    total = mod.n_cases(tier)
    jobs = max(1, min(jobs, total))
    budget = mod.BUDGET_S[tier]
    tmpdir = os.path.join(ROOT, ".work")
    os.makedirs(tmpdir, exist_ok=True)
    env = worker_env()
    # worker processes are recycled: the library keeps every class it ever compiled for alive (lru caches keyed by
    # builder), so one process is given at most CASES_PER_PROCESS cases; `jobs` of them run at a time
    per_proc = getattr(mod, "CASES_PER_PROCESS", {}).get(tier, 4000)
    nshards = max(jobs, -(-total // per_proc))
    rounds = -(-nshards // jobs)
    shard_budget = max(30, budget / rounds)
    results = []
    inconclusive = []
    watchdog = budget * 2 + 120
    pending = list(range(nshards))
    running = []

    def launch(i):
        out = os.path.join(tmpdir, f"{check_id}-{tier}-{os.getpid()}-{i}.json")
        log = open(out + ".log", "w")
        cmd = [PY, "-m", "vfw.runner", "--worker", check_id, "--tier", tier, "--shard", f"{i}/{nshards}",
               "--seed", str(seed), "--out", out, "--budget", str(shard_budget)]
        p = subprocess.Popen(cmd, cwd=ROOT, env=env, stdout=log, stderr=subprocess.STDOUT, text=True)
        return (p, out, log)

    def collect(p, out, log):
        log.close()
        try:
            stdout = open(out + ".log").read()
        except Exception:
            stdout = ""
        if p.returncode != 0 or not os.path.exists(out):
            inconclusive.append(f"worker failed rc={p.returncode}: {stdout[-800:]}")
        else:
            results.append(json.load(open(out)))
            if not keep:
                os.unlink(out)
        try:
            os.unlink(out + ".log")
        except OSError:
            pass
    while pending or running:
        while pending and len(running) < jobs:
            running.append(launch(pending.pop(0)))
        still = []
        for p, out, log in running:
            if p.poll() is None:
                still.append((p, out, log))
            else:
                collect(p, out, log)
        running = still
        if time.time() - t0 > watchdog:
            for p, out, log in running:
                p.kill()
                p.wait()
                log.close()
            if running or pending:
                inconclusive.append(f"worker watchdog fired ({len(running)} running, {len(pending)} not started)")
            break
        if running:
            time.sleep(0.05)
    return finish(mod, check_id, tier, seed, results, inconclusive, time.time() - t0)


def finish(mod, check_id, tier, seed, results, inconclusive, wall):
    from . import findings as F
    agg_counts = collections.Counter()
    distinct = set()
    samples = []
    violations = []
    sig_counts = collections.Counter()
    evaluations = 0
    extra = collections.defaultdict(list)
    for r in results:
        evaluations += r["evaluations"]
        distinct.update(r["distinct"])
        agg_counts.update(r["counts"])
        for s in r["samples"]:
            if len(samples) < 6:
                samples.append(s)
        violations += r["violations"]
        sig_counts.update(r["viol_sig_counts"])
        if r.get("stopped_early"):
            agg_counts["shards_stopped_early"] += 1
        for k, v in r.get("extra", {}).items():
            if isinstance(v, list):
                extra[k] += v
            else:
                extra[k].append(v)
    known = [k for k in load_known() if check_id in k.get("properties", []) and k.get("status") == "open"]
    for k in known:
        if k["predicate"] not in F.PREDICATES:
            inconclusive.append(f"known finding {k['id']} names an unknown predicate {k['predicate']!r}")
    new_viol, known_hits = [], collections.OrderedDict()
    for v in violations:
        hit = None
        for k in known:
            pred = F.PREDICATES.get(k["predicate"])
            if pred and pred(v):
                hit = k
                break
        if hit:
            known_hits.setdefault(hit["id"], {"finding": hit, "n": 0, "example": v})["n"] += 1
        else:
            new_viol.append(v)
    # minimum-event rule: the deciding monitors must have observed something
    for name, minimum in getattr(mod, "MIN_EVENTS", {}).get(tier, {}).items():
        got = evaluations if name == "evaluations" else agg_counts.get(name, 0)
        if got < minimum:
            inconclusive.append(f"monitor '{name}' observed {got} < minimum {minimum}")
    if agg_counts.get("harness_error", 0) > max(3, 0.02 * max(1, agg_counts.get("cases", 0))):
        inconclusive.append(f"{agg_counts['harness_error']} harness errors: "
                            + json.dumps(extra.get("harness_errors", [])[:2])[:1500])
    # replay files
    replay_dir = os.path.join(OUT_ROOT or ROOT, "replay")
    os.makedirs(replay_dir, exist_ok=True)
    lines = []
    seen_sig = set()
    for v in new_viol:
        if v["sig"] in seen_sig:
            continue
        seen_sig.add(v["sig"])
        h = hashlib.blake2b((check_id + v["sig"]).encode(), digest_size=6).hexdigest()
        path = os.path.join(replay_dir, f"{check_id}-{h}.json")
        json.dump({"property": check_id, "tier": tier, "seed": seed, **v}, open(path, "w"), indent=1, default=str)
        lines.append(f"VIOLATION property={check_id} replay={path}")
    for fid, h in known_hits.items():
        print(f"KNOWN-FINDING: property={check_id} {fid} {h['finding']['text']} (observed {h['n']}x this run)")
    coverage = {
        "evaluations": int(evaluations),
        "distinct_nontrivial": len(distinct),
        "rule": mod.RULE,
        "samples": samples or [{"note": "no sample recorded"}],
        "counters": {k: int(v) for k, v in sorted(agg_counts.items())},
        "violation_signatures": dict(sig_counts),
        "known_finding_hits": {fid: h["n"] for fid, h in known_hits.items()},
        "inconclusive_reasons": inconclusive,
    }
    if getattr(mod, "EXHAUSTIVE", False):
        coverage["exhaustive"] = True
    for k, v in extra.items():
        if k == "harness_errors":
            coverage["harness_errors"] = v[:3]
        else:
            merged = getattr(mod, "merge_extra", None)
            coverage[k] = merged(k, v) if merged else v[:16]
    ev = {
        "property_id": check_id, "tier": tier, "seed": int(seed), "level": mod.LEVEL,
        "coverage": coverage, "assumptions": list(getattr(mod, "ASSUMPTIONS", [])),
        "wall_s": round(wall, 2), "violations": len(new_viol),
    }
    os.makedirs(os.path.join(OUT_ROOT or ROOT, "evidence"), exist_ok=True)
    with open(os.path.join(OUT_ROOT or ROOT, "evidence", f"{check_id}.json"), "w") as f:
        json.dump(ev, f, indent=1, sort_keys=True, default=str)
    for ln in lines:
        print(ln)
    status = "violated" if lines else ("inconclusive" if inconclusive else "held")
    print(f"[{check_id}/{tier}] {status}: evaluations={evaluations} distinct_nontrivial={len(distinct)} "
          f"violations={len(new_viol)} known_hits={sum(h['n'] for h in known_hits.values())} wall={wall:.1f}s")
    if lines:
        return 1
    if inconclusive:
        for r in inconclusive[:5]:
            print("INCONCLUSIVE:", r[:600])
        return 2
    return 0


def do_replay(mod, check_id, path):
    from . import findings as F  # noqa
    data = json.load(open(path))
    rec = Recorder(check_id, data.get("tier", "quick"), replaying=True)
    rec.case_seed = data["case_seed"]
    rec.case_index = data.get("case_index")
    setup = getattr(mod, "worker_setup", None)
    state = setup(rec.tier, rec) if setup else None
    print(f"replaying {check_id} case_seed={rec.case_seed} sig={data.get('sig')}")
    mod.run_case(rec.case_seed, rec.tier, rec, state)
    same = [v for v in rec.violations if v["sig"] == data.get("sig")]
    print(f"replay: {len(rec.violations)} violation(s), {len(same)} with the recorded signature")
    known = [k for k in load_known() if check_id in k.get("properties", []) and k.get("status") == "open"]
    new_viol = []
    for v in rec.violations:
        hit = next((k for k in known if F.PREDICATES.get(k["predicate"]) and F.PREDICATES[k["predicate"]](v)), None)
        if hit:
            print(f"KNOWN-FINDING: property={check_id} {hit['id']} {hit['text']} sig={v['sig']}")
        else:
            new_viol.append(v)
            print("NEW:", json.dumps(v, default=str)[:3000])
    if new_viol:
        print(f"VIOLATION property={check_id} replay={path}")
        return 1
    return 0


def main(argv=None):
    ap = argparse.ArgumentParser()
    ap.add_argument("--worker")
    ap.add_argument("--tier", default="quick")
    ap.add_argument("--shard", default="0/1")
    ap.add_argument("--seed", type=int, default=0)
    ap.add_argument("--out")
    ap.add_argument("--budget", default="600")
    a = ap.parse_args(argv)
    a.check = a.worker
    run_worker(a)


if __name__ == "__main__":
    main()
