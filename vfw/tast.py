"""Type AST: JSON-serialisable description of a type hint, independent of the
live typing objects, plus a renderer to Python source text.

A node is a tuple whose first item is the kind:

  scalars   ('int',) ('float',) ('bool',) ('str',) ('none',) ('any',) ('bytes',)
            ('bytearray',) ('datetime',) ('date',) ('time',) ('timedelta',)
            ('timezone',) ('zoneinfo',) ('uuid',) ('decimal',) ('fraction',)
            ('pattern',) ('ip', clsname) ('path', clsname)
  named     ('enum', name) ('dc', name) ('nt', name) ('td', name)
            ('gdc', name, (arg, ...))         generic dataclass specialisation
            ('newtype', name, t)
  containers('seq', spelling, elem) ('map', spelling, k, v)
            ('counter', spelling, k) ('chainmap', spelling, k, v)
            ('tuple', spelling, (t, ...)) ('vtuple', spelling, elem)
            ('utuple', spelling, (pre...), mid, (post...))  mid = tuple/vtuple node
  special   ('opt', t, style) ('union', (t, ...), style) ('lit', (const, ...))
            ('ann', t, (src, ...)) ('final', t) ('self',) ('tv', name)
  const     ('s', str) ('i', int) ('b', bool) ('y', latin1-str) ('n',) ('e', enum, member)
"""
from __future__ import annotations

# ---------------------------------------------------------------- spellings
# spelling -> (source text of the origin, canonical concrete kind)
SEQ_SPELLINGS = {
    "List": ("List", "list"),
    "list": ("list", "list"),
    "Sequence": ("Sequence", "list"),
    "abc.Sequence": ("collections.abc.Sequence", "list"),
    "MutableSequence": ("MutableSequence", "list"),
    "abc.MutableSequence": ("collections.abc.MutableSequence", "list"),
    "Deque": ("Deque", "deque"),
    "deque": ("collections.deque", "deque"),
    "Set": ("Set", "set"),
    "set": ("set", "set"),
    "abc.Set": ("collections.abc.Set", "set"),
    "AbstractSet": ("AbstractSet", "set"),
    "MutableSet": ("MutableSet", "set"),
    "abc.MutableSet": ("collections.abc.MutableSet", "set"),
    "FrozenSet": ("FrozenSet", "frozenset"),
    "frozenset": ("frozenset", "frozenset"),
}
MAP_SPELLINGS = {
    "Dict": ("Dict", "dict"),
    "dict": ("dict", "dict"),
    "Mapping": ("Mapping", "dict"),
    "abc.Mapping": ("collections.abc.Mapping", "dict"),
    "MutableMapping": ("MutableMapping", "dict"),
    "abc.MutableMapping": ("collections.abc.MutableMapping", "dict"),
    "OrderedDict": ("typing.OrderedDict", "OrderedDict"),
    "collections.OrderedDict": ("collections.OrderedDict", "OrderedDict"),
    "DefaultDict": ("DefaultDict", "defaultdict"),
    "defaultdict": ("collections.defaultdict", "defaultdict"),
    "MappingProxyType": ("types.MappingProxyType", "mappingproxy"),
}
COUNTER_SPELLINGS = {
    "Counter": ("typing.Counter", "Counter"),
    "collections.Counter": ("collections.Counter", "Counter"),
}
CHAINMAP_SPELLINGS = {
    "ChainMap": ("typing.ChainMap", "ChainMap"),
    "collections.ChainMap": ("collections.ChainMap", "ChainMap"),
}
TUPLE_SPELLINGS = {"Tuple": "Tuple", "tuple": "tuple"}

IP_CLASSES = (
    "IPv4Address", "IPv6Address", "IPv4Network", "IPv6Network",
    "IPv4Interface", "IPv6Interface",
)
PATH_CLASSES = (
    "PurePath", "Path", "PurePosixPath", "PosixPath", "PureWindowsPath",
    "PathLike",
)
# decode target for each path annotation (os.PathLike -> PurePosixPath on linux)
PATH_CANON = {
    "PurePath": "PurePosixPath", "Path": "PosixPath",
    "PurePosixPath": "PurePosixPath", "PosixPath": "PosixPath",
    "PureWindowsPath": "PureWindowsPath", "PathLike": "PurePosixPath",
}

SCALAR_SRC = {
    "int": "int", "float": "float", "bool": "bool", "str": "str",
    "none": "types.NoneType", "any": "Any", "bytes": "bytes", "bytearray": "bytearray",
    "datetime": "datetime.datetime", "date": "datetime.date",
    "time": "datetime.time", "timedelta": "datetime.timedelta",
    "timezone": "datetime.timezone", "zoneinfo": "zoneinfo.ZoneInfo",
    "uuid": "uuid.UUID", "decimal": "decimal.Decimal",
    "fraction": "fractions.Fraction", "pattern": "re.Pattern",
}
BASIC_SCALARS = ("int", "float", "bool", "str", "none")

# prelude executed at the top of every generated family module
PRELUDE = """\
import collections, collections.abc, dataclasses, datetime, decimal, enum
import fractions, ipaddress, os, pathlib, re, types, typing, uuid, zoneinfo
from dataclasses import dataclass, field, InitVar, KW_ONLY
from typing import *
import typing_extensions
from typing_extensions import (TypedDict, NotRequired, Required, Annotated,
                               Literal, Unpack, Self, ReadOnly)
from mashumaro import DataClassDictMixin, field_options, pass_through
from mashumaro.config import (BaseConfig, ADD_DIALECT_SUPPORT,
    ADD_SERIALIZATION_CONTEXT, TO_DICT_ADD_BY_ALIAS_FLAG,
    TO_DICT_ADD_OMIT_NONE_FLAG)
from mashumaro.dialect import Dialect
from mashumaro.types import (Alias, Discriminator, SerializableType,
                             SerializationStrategy)
from mashumaro.mixins.json import DataClassJSONMixin
from mashumaro.mixins.orjson import DataClassORJSONMixin
from mashumaro.mixins.msgpack import DataClassMessagePackMixin
from mashumaro.mixins.yaml import DataClassYAMLMixin
from mashumaro.mixins.toml import DataClassTOMLMixin
"""


def render_const(c) -> str:
    k = c[0]
    if k == "s":
        return repr(c[1])
    if k == "i":
        return repr(c[1])
    if k == "b":
        return repr(c[1])
    if k == "y":
        return repr(c[1].encode("latin1"))
    if k == "n":
        return "None"
    if k == "e":
        return f"{c[1]}.{c[2]}"
    raise ValueError(c)


def render_field(t) -> str:
    """annotation of a field: a bare None is spelled None (typing normalises it)."""
    return "None" if t == ("none",) else render(t)


def render(t) -> str:
    """Python source text of the type hint.  NoneType nested inside a generic is
    spelled type(None): PEP 585 builtins do not normalise a bare None and
    mashumaro rejects it loudly at class creation ("None as a field type is not
    supported"), which puts that spelling outside the supported grammar."""
    k = t[0]
    if k in SCALAR_SRC:
        return SCALAR_SRC[k]
    if k == "ip":
        return f"ipaddress.{t[1]}"
    if k == "path":
        return "os.PathLike" if t[1] == "PathLike" else f"pathlib.{t[1]}"
    if k in ("enum", "dc", "nt", "td", "stype", "boxed"):
        return t[1]
    if k == "gdc":
        return f"{t[1]}[{', '.join(render(a) for a in t[2])}]"
    if k in ("newtype", "talias"):
        return t[1]
    if k == "tv":
        return t[1]
    if k == "seq":
        return f"{SEQ_SPELLINGS[t[1]][0]}[{render(t[2])}]"
    if k == "map":
        return f"{MAP_SPELLINGS[t[1]][0]}[{render(t[2])}, {render(t[3])}]"
    if k == "counter":
        return f"{COUNTER_SPELLINGS[t[1]][0]}[{render(t[2])}]"
    if k == "chainmap":
        return f"{CHAINMAP_SPELLINGS[t[1]][0]}[{render(t[2])}, {render(t[3])}]"
    if k == "tuple":
        if not t[2]:
            return f"{TUPLE_SPELLINGS[t[1]]}[()]"
        return f"{TUPLE_SPELLINGS[t[1]]}[{', '.join(render(x) for x in t[2])}]"
    if k == "vtuple":
        return f"{TUPLE_SPELLINGS[t[1]]}[{render(t[2])}, ...]"
    if k == "utuple":
        parts = [render(x) for x in t[2]]
        # builtin spelling: PEP 646 star syntax (typing turns it into Unpack[...] inside annotations; as the root shape of a
        # codec it reaches the library unevaluated)
        parts.append(f"*{render(t[3])}" if TUPLE_SPELLINGS[t[1]] == "tuple" else f"Unpack[{render(t[3])}]")
        parts += [render(x) for x in t[4]]
        return f"{TUPLE_SPELLINGS[t[1]]}[{', '.join(parts)}]"
    if k == "opt":
        style = t[2] if len(t) > 2 else "Optional"
        if style == "pipe":
            return f"{render(t[1])} | None"
        if style == "union":
            return f"Union[{render(t[1])}, None]"
        if style == "union_first":
            return f"Union[None, {render(t[1])}]"
        return f"Optional[{render(t[1])}]"
    if k == "union":
        style = t[2] if len(t) > 2 else "Union"
        ms = ["None" if x == ("none",) else render(x) for x in t[1]]
        if style == "pipe":
            return " | ".join(ms)
        return f"Union[{', '.join(ms)}]"
    if k == "lit":
        return f"Literal[{', '.join(render_const(c) for c in t[1])}]"
    if k == "ann":
        return f"Annotated[{render(t[1])}, {', '.join(t[2])}]"
    if k == "final":
        return f"Final[{render(t[1])}]"
    if k == "self":
        return "Self"
    raise ValueError(f"unknown AST node {t!r}")


def to_json(t):
    """tuples -> lists (for evidence / replay files)."""
    if isinstance(t, tuple):
        return [to_json(x) for x in t]
    return t


def from_json(t):
    if isinstance(t, list):
        return tuple(from_json(x) for x in t)
    return t


def children(t):
    """direct sub-type nodes."""
    k = t[0]
    if k in ("seq", "counter", "vtuple"):
        return [t[2]]
    if k in ("map", "chainmap"):
        return [t[2], t[3]]
    if k == "tuple":
        return list(t[2])
    if k == "utuple":
        return list(t[2]) + [t[3]] + list(t[4])
    if k in ("opt", "ann", "final"):
        return [t[1]]
    if k == "union":
        return list(t[1])
    if k in ("newtype", "talias"):
        return [t[2]]
    if k == "gdc":
        return list(t[2])
    return []


def walk(t):
    yield t
    for c in children(t):
        yield from walk(c)


def strip(t):
    """remove transparent wrappers (Annotated / Final / NewType)."""
    while t[0] in ("ann", "final", "newtype", "talias"):
        t = t[2] if t[0] in ("newtype", "talias") else t[1]
    return t


def depth(t) -> int:
    cs = children(t)
    return 1 + (max(depth(c) for c in cs) if cs else 0)


def shape_hash(t) -> str:
    """coarse shape used for 'distinct' counting: kinds only."""
    k = t[0]
    cs = children(t)
    if not cs:
        return k
    return k + "(" + ",".join(shape_hash(c) for c in cs) + ")"
