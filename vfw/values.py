"""Conforming value generator over the type AST (edge pools, not one sample)."""
from __future__ import annotations

import collections
import datetime
import decimal
import fractions
import ipaddress
import pathlib
import re
import types
import uuid
import zoneinfo

from . import tast

TD = datetime.timedelta
TZS = [
    datetime.timezone.utc,
    datetime.timezone(TD(hours=3)),
    datetime.timezone(TD(hours=-5, minutes=-30)),
    datetime.timezone(TD(minutes=-30)),
    datetime.timezone(TD(minutes=-1)),
    datetime.timezone(TD(hours=14)),
    datetime.timezone(TD(hours=-23, minutes=-59)),
    datetime.timezone(TD(minutes=1)),
    datetime.timezone(TD(hours=-12)),
    datetime.timezone(TD(hours=5, minutes=45)),
]
STRS = ["", "a", "x y", "é", "\n", "'\"\\", "None", "12", "true", "日本", " lead",
        "2020-01-01", "UTC", "1.5", "k"]


class Gen:
    """value generator bound to a family (for named classes)."""

    def __init__(self, fam, rng, exclusions=()):
        self.fam = fam
        self.rng = rng
        self.tv_bind = {}
        self._cls_stack = []

    def value(self, t, depth=3):
        rng = self.rng
        k = t[0]
        m = getattr(self, "_v_" + k, None)
        if m is None:
            raise NotImplementedError(t)
        return m(t, depth)

    # ------------------------------------------------------------ scalars
    def _v_any(self, t, d):
        return self.rng.choice([None, 1, "x", [1, "a"], {"k": [1]}, 1.5, True, [], {}])

    def _v_none(self, t, d):
        return None

    def _v_boxed(self, t, d):
        cls = self.fam.get(t[1])
        return cls([self._v_date(("date",), d) for _ in range(self.rng.randint(0, 2))])

    def _v_stype(self, t, d):
        cls = self.fam.get(t[1])
        if self.fam.defs[t[1]]["flavour"] == "plain":
            return cls(self.rng.randint(-5, 99), self.rng.choice(["", "x", "é y", "1"]))
        if self.fam.defs[t[1]]["flavour"] == "annotations-list":
            return cls([self.rng.randint(0, 9) for _ in range(self.rng.randint(0, 3))], self.rng.randint(-5, 99))
        return cls(self._v_date(("date",), d), self.rng.randint(-5, 99))

    def _v_int(self, t, d):
        r = self.rng
        return r.choice([0, 1, -1, 2**40, -2**63, 2**63 - 1, 2**70, r.randint(-1000, 1000), r.randint(-9, 9)])

    def _v_float(self, t, d):
        r = self.rng
        return r.choice([0.0, -0.0, 1.5, -2.25, 1e300, 1e-300, 5e-324, float(r.randint(-5, 5)),
                         r.random(), float("inf"), -float("inf"), 0.1, 1e16])

    def _v_bool(self, t, d):
        return self.rng.random() < 0.5

    def _v_str(self, t, d):
        r = self.rng
        return r.choice(STRS + [r.choice("abc") * r.randint(0, 4)])

    def _v_bytes(self, t, d):
        r = self.rng
        return r.choice([b"", b"\x00", b"abc", bytes(range(r.randint(0, 80))), b"\xff" * 57,
                         b"\xff" * 58, b"ab", b"abcd", bytes(r.getrandbits(8) for _ in range(r.randint(0, 6)))])

    def _v_bytearray(self, t, d):
        return bytearray(self._v_bytes(t, d))

    def _v_datetime(self, t, d):
        r = self.rng
        tz = r.choice([None, None] + TZS)
        return datetime.datetime(r.choice([1, 9999, r.randint(1, 9999), r.randint(1900, 2100)]),
                                 r.randint(1, 12), r.randint(1, 28), r.randint(0, 23),
                                 r.randint(0, 59), r.randint(0, 59),
                                 r.choice([0, 0, 1, 999999, 500000, 1000, r.randint(0, 999999)]), tzinfo=tz)

    def _v_date(self, t, d):
        r = self.rng
        return datetime.date(r.choice([1, 9999, r.randint(1, 9999)]), r.randint(1, 12), r.randint(1, 28))

    def _v_time(self, t, d):
        r = self.rng
        tz = r.choice([None, None, None] + TZS)
        return datetime.time(r.randint(0, 23), r.randint(0, 59), r.randint(0, 59),
                             r.choice([0, 1, 999999, 120000]), tzinfo=tz)

    def _v_timedelta(self, t, d):
        r = self.rng
        return r.choice([TD(0), TD(seconds=-1), TD(days=3, microseconds=5), TD(days=-2, seconds=7),
                         TD(milliseconds=r.randint(-10**6, 10**6)), TD(microseconds=1),
                         TD(microseconds=-1), TD(days=r.randint(-10000, 10000), seconds=r.randint(0, 86399),
                                                microseconds=r.randint(0, 999999))])

    def _v_timezone(self, t, d):
        return self.rng.choice(TZS)

    def _v_zoneinfo(self, t, d):
        return zoneinfo.ZoneInfo(self.rng.choice(["UTC", "Europe/Moscow", "America/New_York", "Asia/Kolkata"]))

    def _v_uuid(self, t, d):
        r = self.rng
        return r.choice([uuid.UUID(int=0), uuid.UUID(int=2**128 - 1), uuid.UUID(int=r.getrandbits(128))])

    def _v_decimal(self, t, d):
        r = self.rng
        return r.choice([decimal.Decimal("0"), decimal.Decimal("-1.50"), decimal.Decimal("1E+5"),
                         decimal.Decimal("3.14159"), decimal.Decimal("-0"), decimal.Decimal("0.000"),
                         decimal.Decimal(r.randint(-10**6, 10**6)) / 100, decimal.Decimal("Infinity")])

    def _v_fraction(self, t, d):
        r = self.rng
        return fractions.Fraction(r.randint(-99, 99), r.randint(1, 99))

    def _v_ip(self, t, d):
        r = self.rng
        c = t[1]
        if c == "IPv4Address":
            return ipaddress.IPv4Address(r.choice([0, 2**32 - 1, r.getrandbits(32)]))
        if c == "IPv6Address":
            return ipaddress.IPv6Address(r.choice([0, 1, 2**128 - 1, r.getrandbits(128)]))
        if c == "IPv4Network":
            return ipaddress.IPv4Network((r.getrandbits(32), r.randint(0, 32)), strict=False)
        if c == "IPv6Network":
            return ipaddress.IPv6Network((r.getrandbits(128), r.randint(0, 128)), strict=False)
        if c == "IPv4Interface":
            return ipaddress.IPv4Interface((r.getrandbits(32), r.randint(0, 32)))
        if c == "IPv6Interface":
            return ipaddress.IPv6Interface((r.getrandbits(128), r.randint(0, 128)))
        raise ValueError(c)

    def _v_path(self, t, d):
        cls = getattr(pathlib, tast.PATH_CANON[t[1]])
        return cls(self.rng.choice(["/a/b", "rel/x.txt", ".", "/", "a b/c", "é/ü", "..", "/x/../y", "C:\\w\\x"]))

    def _v_pattern(self, t, d):
        return re.compile(self.rng.choice(["a+", "", r"\d{2}", "[x-z]*", "(?P<n>x)|y", "'\"\\\\"]))

    # ------------------------------------------------------------ named
    def _v_enum(self, t, d):
        cls = self.fam.get(t[1])
        base = self.fam.defs[t[1]]["base"]
        if base in ("Flag", "IntFlag"):
            v = cls(0)
            for m in cls:
                if self.rng.random() < 0.5:
                    v |= m
            return v
        return self.rng.choice(list(cls))

    def _v_nt(self, t, d):
        cls = self.fam.get(t[1])
        return cls(*[self.value(f["t"], d - 1) for f in self.fam.defs[t[1]]["fields"]])

    def _v_td(self, t, d):
        df = self.fam.defs[t[1]]
        out = {}
        for f in df["fields"]:
            req = f.get("q") == "Required" or (f.get("q") is None and df.get("total", True))
            if req or self.rng.random() < 0.5:
                out[f["n"]] = self.value(f["t"], d - 1)
        return out

    def _v_dc(self, t, d):
        return self.instance(t[1], d)

    def instance(self, name, d=3, type_args=None):
        cls = self.fam.get(name)
        df = self.fam.defs[name]
        kw = {}
        saved = dict(self.tv_bind)
        if type_args is not None and df.get("generic"):
            self.tv_bind.update(dict(zip(df["generic"], type_args)))
        self._cls_stack.append(name)
        try:
            for f in self.fam.dc_fields(name):
                if f.get("init") is False:
                    continue
                if f.get("dmode") and self.rng.random() < 0.25:
                    continue  # leave the default
                kw[f["n"]] = self.value(f["t"], d - 1)
        finally:
            self.tv_bind = saved
            self._cls_stack.pop()
        return cls(**kw)

    def _v_gdc(self, t, d):
        return self.instance(t[1], d, t[2])

    def _v_tv(self, t, d):
        b = self.tv_bind.get(t[1])
        if b is None:
            df = self.fam.defs[t[1]]
            if df.get("constraints"):
                b = self.rng.choice(list(df["constraints"]))
            elif df.get("bound") is not None:
                b = df["bound"]
            else:
                b = ("any",)
        return self.value(b, d)

    def _v_newtype(self, t, d):
        return self.value(t[2], d)

    _v_talias = _v_newtype

    def _v_self(self, t, d):
        return self.instance(self._cls_stack[-1], d - 1)

    # ------------------------------------------------------------ containers
    def _n(self, d):
        return self.rng.choice([0, 1, 2, 3]) if d > 0 else self.rng.choice([0, 0, 1])

    def _v_seq(self, t, d):
        kind = tast.SEQ_SPELLINGS[t[1]][1]
        n = 0 if (tast.strip(t[2]) == ("self",) and d <= 1) else self._n(d)
        items = [self.value(t[2], d - 1) for _ in range(n)]
        if kind == "list":
            return items
        if kind == "deque":
            return collections.deque(items)
        if kind == "set":
            return set(items)
        return frozenset(items)

    def _pairs(self, kt, vt, d):
        out = {}
        for _ in range(self._n(d)):
            out[self.value(kt, d - 1)] = self.value(vt, d - 1)
        return out

    def _v_map(self, t, d):
        kind = tast.MAP_SPELLINGS[t[1]][1]
        base = self._pairs(t[2], t[3], d)
        if kind == "dict":
            return base
        if kind == "OrderedDict":
            return collections.OrderedDict(base)
        if kind == "defaultdict":
            return collections.defaultdict(None, base)
        if kind == "mappingproxy":
            return types.MappingProxyType(base)
        raise ValueError(kind)

    def _v_counter(self, t, d):
        return collections.Counter({self.value(t[2], d - 1): self.rng.randint(-2, 5) for _ in range(self._n(d))})

    def _v_chainmap(self, t, d):
        return collections.ChainMap(*[self._pairs(t[2], t[3], d) for _ in range(self.rng.randint(1, 3))])

    def _v_tuple(self, t, d):
        return tuple(self.value(x, d - 1) for x in t[2])

    def _v_vtuple(self, t, d):
        return tuple(self.value(t[2], d - 1) for _ in range(self._n(d)))

    def _v_utuple(self, t, d):
        return (tuple(self.value(x, d - 1) for x in t[2]) + self.value(t[3], d)
                + tuple(self.value(x, d - 1) for x in t[4]))

    # ------------------------------------------------------------ special
    def _v_opt(self, t, d):
        if self.rng.random() < 0.3 or (tast.strip(t[1]) == ("self",) and d <= 1):
            return None
        return self.value(t[1], d)

    def _v_union(self, t, d):
        return self.value(self.rng.choice(list(t[1])), d)

    def _v_lit(self, t, d):
        return self.const(self.rng.choice(list(t[1])))

    def const(self, c):
        k = c[0]
        if k in ("s", "i", "b"):
            return c[1]
        if k == "y":
            return c[1].encode("latin1")
        if k == "n":
            return None
        if k == "e":
            return getattr(self.fam.get(c[1]), c[2])
        raise ValueError(c)

    def _v_ann(self, t, d):
        return self.value(t[1], d)

    def _v_final(self, t, d):
        return self.value(t[1], d)
